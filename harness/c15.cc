// C15 implementation driver: the REAL DhtRouter / DhtBucket / DhtNode / DhtTracker / DhtServer
// objects driven op by op (same case protocol as ocaml/c15_driver.ml).
//
// Case line:   N <own-id 40hex> <curSecret> <prevSecret> <t0 seconds> <op> <op> ...
//   ops (comma separated fields, ids/info-hashes 40 hex, ip = a<<24|b<<16|c<<8|d decimal):
//     T,dt             advance the (virtual) clock by dt seconds
//     Q,id,ip,port     DhtRouter::node_queried
//     R,id,ip,port     DhtRouter::node_replied
//     I,id,ip,port     DhtRouter::node_inactive
//     V,id             DhtRouter::node_invalid
//     H,secret         DhtRouter::receive_timeout (15 min housekeeping; next random() = secret)
//     G,ip             DhtRouter::make_token
//     K,tokhex,ip      DhtRouter::token_valid
//     A,ih,ip,port,tok DhtServer::create_announce_peer_response (token check + DhtTracker::add_peer)
//     P,ih,ip,rnd      DhtServer::create_get_peers_response (token + values | nodes; next random() = rnd)
//     F,target         DhtServer::create_find_node_response
//     W,id             DhtRouter::want_node
//     D                full dump
//   every op prints  <letter>:<result>#<fnv32 of the full dump after the op>; the line ends with a dump.
//
// The server is really started (bound to an ephemeral UDP port on the default bind address) because
// DhtRouter always talks to its DhtServer (ping on unknown querier, find_node on housekeeping); the
// packets it queues are never flushed here (no poll, no scheduler run).
#include "config.h"
#include "common/util.h"

#include <arpa/inet.h>
#include <deque>
#include <algorithm>
#include <map>

#include "torrent/exceptions.h"
#include "torrent/object.h"
#include "torrent/torrent.h"
#include "torrent/hash_string.h"
#include "torrent/net/socket_address.h"
#include "torrent/system/thread.h"
#include "torrent/system/scheduler.h"
#include "thread_main.h"
#include "dht/dht_router.h"
#include "dht/dht_bucket.h"
#include "dht/dht_node.h"
#include "dht/dht_tracker.h"
#include "dht/dht_server.h"
#include "dht/dht_transaction.h"

using namespace ltv;
using namespace torrent;

// ---------------------------------------------------------------- random() interposition
static std::deque<long> g_rnd;          // values the case line dictates (token secrets, get_peers block)
static uint64_t g_fill = 0x9e3779b97f4a7c15ull;  // (unused since the transaction layer is modelled)
static long g_fillc = 0;                // everything else (transaction ids, random search targets): a per-case constant
static unsigned long g_rnd_calls = 0;
extern "C" long random() {
  g_rnd_calls++;
  if (!g_rnd.empty()) { long v = g_rnd.front(); g_rnd.pop_front(); return v; }
  return g_fillc;
}

// ---------------------------------------------------------------- helpers
static HashString hs(const std::string& h) {
  std::string raw = unhex(h);
  if (raw.size() != 20) throw std::runtime_error("id");
  HashString x;
  x.assign(raw.data());
  return x;
}
static std::string hx(const HashString& h) { return hex(h.data(), 20); }

static sockaddr_in mk_sin(uint32_t ip, uint16_t port) {
  sockaddr_in s{};
  s.sin_family = AF_INET;
  s.sin_addr.s_addr = htonl(ip);
  s.sin_port = htons(port);
  return s;
}

static uint32_t fnv32(const std::string& s) {
  uint32_t h = 2166136261u;
  for (unsigned char c : s) { h ^= c; h *= 16777619u; }
  return h;
}

static std::vector<std::string> split(const std::string& s, char c) {
  std::vector<std::string> out;
  size_t i = 0;
  while (true) {
    size_t j = s.find(c, i);
    if (j == std::string::npos) { out.push_back(s.substr(i)); break; }
    out.push_back(s.substr(i, j - i));
    i = j + 1;
  }
  return out;
}

// A node learnt from a datagram carries the (ephemeral) port of the scripted socket it came from; the
// model writes port 0 for it.
static uint16_t canon_port(uint32_t ip, uint16_t port);
static std::string canon_nodes(const char* p, size_t n) {
  std::string raw(p, n);
  for (size_t i = 0; i + 26 <= raw.size(); i += 26) {
    uint32_t ipn; uint16_t portn;
    memcpy(&ipn, raw.data() + i + 20, 4);
    memcpy(&portn, raw.data() + i + 24, 2);
    uint32_t ip = ntohl(ipn);
    uint16_t port = ntohs(portn);
    uint16_t c = htons(canon_port(ip, port));
    memcpy(&raw[i + 24], &c, 2);
  }
  return hex(raw);
}

static std::string dump(DhtRouter* r) {
  std::string o;
  char buf[256];
  snprintf(buf, sizeof buf, "own=%s now=%lld cur=%d prev=%d nn=%zu", hx(r->bucket()->id_range_end()).c_str(),
           (long long)this_thread::cached_seconds().count(), r->m_curToken, r->m_prevToken, r->m_nodes.size());
  o += buf;
  for (auto& [key, b] : r->m_routingTable) {
    snprintf(buf, sizeof buf, " B[%s-%s c=%lld g=%u b=%u k=%zu%s:", hx(b->m_begin).c_str(), hx(b->m_end).c_str(),
             (long long)b->m_last_changed, b->m_good, b->m_bad, b->m_fullCacheLength, key == b->m_end ? "" : " KEY!");
    o += buf;
    bool first = true;
    for (auto n : *b) {
      auto sin = reinterpret_cast<const sockaddr_in*>(n->address());
      snprintf(buf, sizeof buf, "%s%s/%u/%u/%u/%d/%u%s", first ? "" : ",", hx(n->id()).c_str(), ntohl(sin->sin_addr.s_addr),
               canon_port(ntohl(sin->sin_addr.s_addr), ntohs(sin->sin_port)), n->m_last_seen, n->m_recently_active ? 1 : 0, n->m_recently_inactive,
               n->m_bucket == b ? "" : "!");
      o += buf;
      first = false;
    }
    o += "]";
  }
  // parent/child chain, root first
  {
    const DhtBucket* b = r->bucket();
    int guard = 0;
    while (b->parent() != nullptr && guard++ < 400) b = b->parent();
    o += " chain=";
    bool first = true;
    guard = 0;
    for (; b != nullptr && guard++ < 400; b = b->child()) {
      if (!first) o += ",";
      o += hx(b->id_range_end());
      first = false;
    }
  }
  // trackers sorted by info hash
  std::map<std::string, DhtTracker*> tr;
  for (auto& [ih, t] : r->m_trackers) tr[std::string(ih.data(), 20)] = t;
  o += " trk=";
  for (auto& [ih, t] : tr) {
    o += "[" + hex(ih) + ":";
    for (size_t i = 0; i < t->m_peers.size(); i++) {
      if (i) o += ",";
      o += hex(reinterpret_cast<const char*>(&t->m_peers[i].peer), 6);
      o += "/" + std::to_string(t->m_lastSeen[i]);
    }
    o += "]";
  }
  return o;
}

static std::string values_str(raw_list l) {
  // 8-byte entries "6:" + 6 bytes
  std::string o;
  for (size_t i = 0; i + 8 <= l.size(); i += 8) {
    if (i) o += ",";
    if (l.data()[i] != '6' || l.data()[i + 1] != ':') o += "?";
    o += hex(l.data() + i + 2, 6);
  }
  return o.empty() ? "-" : o;
}


// ---------------------------------------------------------------- datagram level
#include <sys/socket.h>
#include <netinet/in.h>
#include <unistd.h>
#include <fcntl.h>
#include "torrent/object_stream.h"

static std::map<uint32_t, int> g_socks;      // scripted nodes: one UDP socket per loopback source address
static int script_sock(uint32_t ip) {
  auto it = g_socks.find(ip);
  if (it != g_socks.end()) return it->second;
  int fd = socket(AF_INET, SOCK_DGRAM | SOCK_NONBLOCK, 0);
  sockaddr_in sin = mk_sin(ip, 0);
  if (fd < 0 || bind(fd, reinterpret_cast<sockaddr*>(&sin), sizeof sin) != 0) throw std::runtime_error("bind scripted socket");
  g_socks[ip] = fd;
  return fd;
}
static uint16_t canon_port(uint32_t ip, uint16_t port) {
  auto it = g_socks.find(ip);
  if (it == g_socks.end()) return port;
  sockaddr_in sin{};
  socklen_t sl = sizeof sin;
  getsockname(it->second, reinterpret_cast<sockaddr*>(&sin), &sl);
  return ntohs(sin.sin_port) == port ? 0 : port;
}
static void close_socks() {
  for (auto& [ip, fd] : g_socks) close(fd);
  g_socks.clear();
}

static std::string bstr(const std::string& raw) { return std::to_string(raw.size()) + ":" + raw; }
// field: "~" absent, "!" wrong type on the wire, else hex ("-" = empty string)
static void put_str(std::string& out, const char* key, const std::string& f) {
  if (f == "~") return;
  out += bstr(key);
  out += f == "!" ? std::string("i7e") : bstr(unhex(f));
}

static std::string us(std::string s) { for (auto& c : s) if (c == ' ') c = '_'; return s; }

// decode one datagram the scripted node received; "" for a (well-formed) ping query of the server
static std::string show_datagram(const std::string& d, const HashString& own) {
  Object o;
  try {
    if (object_read_bencode_c(d.data(), d.data() + d.size(), &o) != d.data() + d.size() || !o.is_map()) return "UNDECODABLE";
  } catch (bencode_error&) { return "UNDECODABLE"; }
  if (!o.has_key_string("y")) return "NO-Y";
  const std::string& y = o.get_key_string("y");
  std::string t = o.has_key_string("t") ? hex(o.get_key_string("t")) : "~";
  if (!o.has_key_string("v")) return "NO-V";
  if (y == "q") {
    // a query of the server itself (ping to an unknown querier, find_node of a bucket refresh, ...)
    if (o.has_key_string("q") && o.has_key_map("a") && o.get_key("a").has_key_string("id") &&
        o.get_key("a").get_key_string("id") == std::string(own.data(), 20))
      return "";
    return "ODD-QUERY";
  }
  if (y == "r") {
    if (!o.has_key_map("r")) return "r NO-BODY";
    const Object& r = o.get_key("r");
    std::string out = "r t=" + t + " id=" + (r.has_key_string("id") ? hex(r.get_key_string("id")) : "~");
    out += " tok=" + (r.has_key_string("token") ? hex(r.get_key_string("token")) : std::string("~"));
    out += " n=" + (r.has_key_string("nodes") ? canon_nodes(r.get_key_string("nodes").data(), r.get_key_string("nodes").size()) : std::string("~"));
    if (r.has_key_list("values")) {
      std::string v;
      for (auto& x : r.get_key_list("values")) {
        if (!v.empty()) v += ",";
        v += x.is_string() ? hex(x.as_string()) : "?";
      }
      out += " v=" + (v.empty() ? "-" : v);
    } else out += " v=~";
    for (auto& kv : r.as_map())
      if (kv.first != "id" && kv.first != "token" && kv.first != "nodes" && kv.first != "values") out += " EXTRA:" + hex(kv.first);
    return out;
  }
  if (y == "e") {
    if (!o.has_key_list("e") || o.get_key_list("e").size() != 2) return "e BAD-BODY";
    auto& l = o.get_key_list("e");
    if (!l.front().is_value() || !l.back().is_string()) return "e BAD-BODY";
    std::string msg = l.back().as_string();
    if (msg.compare(0, 16, "Malformed packet") == 0) msg = "Malformed packet";
    return "e t=" + t + " " + std::to_string(l.front().as_value()) + " " + us(msg);
  }
  return "ODD-Y";
}

static std::string send_and_collect(DhtRouter* r, uint32_t ip, const std::string& payload, long rnd, const HashString& own) {
  int fd = script_sock(ip);
  sockaddr_in srv{};
  socklen_t sl = sizeof srv;
  getsockname(r->m_server.file_descriptor(), reinterpret_cast<sockaddr*>(&srv), &sl);
  sockaddr_in dst = mk_sin(0x7f000001, ntohs(srv.sin_port));
  if (sendto(fd, payload.data(), payload.size(), 0, reinterpret_cast<sockaddr*>(&dst), sizeof dst) != (ssize_t)payload.size())
    throw std::runtime_error("sendto");
  g_rnd.clear();
  long saved_fill = g_fillc;
  g_fillc = rnd;               // every random() during this datagram: get_peers block choice, ping transaction id
  r->m_server.event_read();
  g_fillc = saved_fill;
  if (!r->m_server.m_highQueue.empty() || !r->m_server.m_lowQueue.empty())
    r->m_server.event_write();
  std::string out;
  int pings = 0;
  // everything that arrived at ANY scripted socket: replies must come to the source only
  for (auto& [sip, sfd] : g_socks) {
    char buf[4096];
    while (true) {
      sockaddr_in from{};
      socklen_t fl = sizeof from;
      ssize_t n = recvfrom(sfd, buf, sizeof buf, 0, reinterpret_cast<sockaddr*>(&from), &fl);
      if (n < 0) break;
      if (from.sin_port != srv.sin_port) continue;   // not from this server (another harness process): ignore
      std::string sd = show_datagram(std::string(buf, n), own);
      if (sd.empty()) { pings++; continue; }
      if (from.sin_port != srv.sin_port) sd += " WRONG-SOURCE-PORT";
      if (sip != ip) sd += " TO-OTHER-ADDRESS";
      if (!out.empty()) out += " + ";
      out += sd;
    }
  }
  return out.empty() ? "none" : out;
}

// DhtServer binds with SO_REUSEADDR; with port 0 the kernel may hand the same ephemeral port to two
// harness processes running in parallel (the later one then steals the datagrams).  Pick a port
// outside the ephemeral range, disjoint per process, and verify with a non-reuse probe that nobody
// holds it.
static int pick_port() {
  static unsigned counter = 0;
  for (int tries = 0; tries < 200; tries++) {
    int port = 10000 + (int)((getpid() % 2000) * 10 + (counter++ % 10));
    if (tries >= 10) port = 10000 + (int)((getpid() * 7919u + counter * 104729u) % 20000);
    int fd = socket(AF_INET, SOCK_DGRAM, 0);
    sockaddr_in sin = mk_sin(0, port);
    bool ok = fd >= 0 && bind(fd, reinterpret_cast<sockaddr*>(&sin), sizeof sin) == 0;
    if (fd >= 0) close(fd);
    if (ok) return port;
  }
  throw std::runtime_error("no free UDP port");
}

static bool g_untracked;
static void update_untracked(DhtRouter* r) {
  if (!r->m_server.m_searches.empty()) g_untracked = true;
  for (auto& kv : r->m_server.m_transactions)
    if (kv.second->type() != DhtTransaction::DHT_PING) g_untracked = true;
}
static std::string txdump(DhtRouter* r) {
  if (g_untracked) return "x";
  std::vector<std::pair<uint32_t, std::string>> v;
  for (auto& kv : r->m_server.m_transactions) {
    auto& t = kv.second;
    auto sin = reinterpret_cast<const sockaddr_in*>(t->address());
    char buf[160];
    snprintf(buf, sizeof buf, "%u/%u/%s/%d/%d", ntohl(sin->sin_addr.s_addr), (unsigned)(kv.first & 0xffffffffu), hx(t->id()).c_str(),
             t->timeout(), t->packet() == nullptr ? 1 : 0);
    v.emplace_back(ntohl(sin->sin_addr.s_addr), buf);
  }
  std::sort(v.begin(), v.end());
  std::string o = "tx=";
  for (size_t i = 0; i < v.size(); i++) o += (i ? "," : "") + v[i].second;
  o += std::string(" up=") + (r->m_server.m_networkUp ? "1" : "0");
  return o;
}

static long long g_now;
static void set_now(long long s) {
  g_now = s;
  ThreadMain::thread_main()->set_cached_time(std::chrono::seconds(s));
}

static std::string run_case(const std::vector<std::string>& t) {
  if (t.size() < 5 || t[0] != "N") return "BADCASE";
  HashString own = hs(t[1]);
  g_rnd.clear();
  g_fillc = (std::stol(t[2]) + 7 * std::stol(t[3])) & 0x7fffffff;
  g_rnd.push_back(std::stol(t[2]));
  g_rnd.push_back(std::stol(t[3]));
  set_now(std::stoll(t[4]));
  g_untracked = false;

  Object cache = Object::create_map();
  cache.insert_key("self_id", std::string(own.data(), 20));
  std::unique_ptr<DhtRouter> r(new DhtRouter(cache));
  r->start(pick_port());
  // DhtRouter::start schedules the bootstrap timeout; the harness calls receive_timeout itself.
  std::string out;
  try {
    for (size_t i = 5; i < t.size(); i++) {
      auto f = split(t[i], ',');
      const std::string& k = f[0];
      std::string res;
      if (k == "T") {
        set_now(g_now + std::stoll(f.at(1)));
        res = "-";
      } else if (k == "Q" || k == "R" || k == "I") {
        HashString id = hs(f.at(1));
        if (id == own) { res = "x"; }
        else {
          sockaddr_in sin = mk_sin(std::stoul(f.at(2)), std::stoul(f.at(3)));
          auto sa = reinterpret_cast<const sockaddr*>(&sin);
          DhtNode* n = k == "Q" ? r->node_queried(id, sa) : k == "R" ? r->node_replied(id, sa) : r->node_inactive(id, sa);
          res = n ? "1" : "0";
        }
      } else if (k == "V") {
        HashString id = hs(f.at(1));
        r->node_invalid(id);
        res = "-";
      } else if (k == "H") {
        g_rnd.clear();
        g_rnd.push_back(std::stol(f.at(1)));
        // what the scheduler does when the entry fires: it is unscheduled, then the slot runs
        this_thread::scheduler()->erase(&r->m_task_timeout);
        r->receive_timeout();
        g_rnd.clear();
        res = "-";
      } else if (k == "G") {
        sockaddr_in sin = mk_sin(std::stoul(f.at(1)), 1);
        char buf[20];
        raw_string tok = r->make_token(reinterpret_cast<const sockaddr*>(&sin), buf);
        res = hex(tok.data(), tok.size());
      } else if (k == "K") {
        std::string tok = unhex(f.at(1));
        sockaddr_in sin = mk_sin(std::stoul(f.at(2)), 1);
        res = r->token_valid(raw_string(tok.data(), tok.size()), reinterpret_cast<const sockaddr*>(&sin)) ? "1" : "0";
      } else if (k == "A") {
        std::string ih = unhex(f.at(1));
        std::string tok = unhex(f.at(4));
        sockaddr_in sin = mk_sin(std::stoul(f.at(2)), 7);
        DhtMessage req, reply;
        req[key_a_infoHash] = raw_string(ih.data(), ih.size());
        req[key_a_token] = raw_string(tok.data(), tok.size());
        req[key_a_port] = (int64_t)std::stoll(f.at(3));
        try {
          r->m_server.create_announce_peer_response(req, reinterpret_cast<const sockaddr*>(&sin), reply);
          res = "ok";
        } catch (network_error& e) { res = std::string("err:") + e.what(); }
      } else if (k == "P") {
        std::string ih = unhex(f.at(1));
        sockaddr_in sin = mk_sin(std::stoul(f.at(2)), 7);
        DhtMessage req, reply;
        req[key_a_infoHash] = raw_string(ih.data(), ih.size());
        g_rnd.clear();
        g_rnd.push_back(std::stol(f.at(3)));
        try {
          r->m_server.create_get_peers_response(req, reinterpret_cast<const sockaddr*>(&sin), reply);
          raw_string tok = reply[key_r_token].as_raw_string();
          res = "t=" + hex(tok.data(), tok.size());
          if (reply[key_r_values].is_raw_list()) res += " v=" + values_str(reply[key_r_values].as_raw_list());
          if (reply[key_r_nodes].is_raw_string()) {
            raw_string n = reply[key_r_nodes].as_raw_string();
            res += " n=" + canon_nodes(n.data(), n.size());
          }
        } catch (network_error& e) { res = std::string("err:") + e.what(); }
        g_rnd.clear();
      } else if (k == "F") {
        std::string tg = unhex(f.at(1));
        DhtMessage req, reply;
        req[key_a_target] = raw_string(tg.data(), tg.size());
        try {
          r->m_server.create_find_node_response(req, reply);
          raw_string n = reply[key_r_nodes].as_raw_string();
          res = "n=" + canon_nodes(n.data(), n.size());
        } catch (network_error& e) { res = std::string("err:") + e.what(); }
      } else if (k == "U") {
        // U,ip,rnd,t,y,q,id,target,ih,token,port
        uint32_t ip = std::stoul(f.at(1));
        std::string a;
        put_str(a, "id", f.at(6));
        put_str(a, "info_hash", f.at(8));
        if (f.at(10) != "~") a += bstr("port") + (f.at(10) == "!" ? std::string("1:x") : "i" + f.at(10) + "e");
        put_str(a, "target", f.at(7));
        put_str(a, "token", f.at(9));
        std::string d = "d";
        if (!a.empty()) d += "1:ad" + a + "e";
        put_str(d, "q", f.at(5));
        put_str(d, "t", f.at(3));
        put_str(d, "y", f.at(4));
        d += "e";
        if (f.at(4) == "72" || f.at(4) == "65") res = "x";     // replies / errors are not modelled
        else res = send_and_collect(r.get(), ip, d, std::stol(f.at(2)), own);
      } else if (k == "Y" || k == "E") {
        // Y,ip,t,id : a reply (y = "r") from ip;  E,ip,t : an error (y = "e") from ip
        if (g_untracked) res = "x";
        else {
          std::string d = "d";
          if (k == "Y") { std::string a; put_str(a, "id", f.at(3)); d += "1:rd" + a + "e"; }
          else d += "1:eli201e1:xe";
          put_str(d, "t", f.at(2));
          d += k == "Y" ? "1:y1:re" : "1:y1:ee";
          res = send_and_collect(r.get(), std::stoul(f.at(1)), d, 0, own);
        }
      } else if (k == "S") {
        if (g_untracked) res = "x";
        else {
          // what the scheduler does when DhtServer's timeout entry fires
          this_thread::scheduler()->erase(&r->m_server.m_task_timeout);
          r->m_server.receive_timeout();
          res = "-";
        }
      } else if (k == "Z") {
        res = txdump(r.get());
      } else if (k == "X") {
        res = send_and_collect(r.get(), std::stoul(f.at(1)), unhex(f.at(2)), 0, own);
      } else if (k == "W") {
        res = r->want_node(hs(f.at(1))) ? "1" : "0";
      } else if (k == "D") {
        res = dump(r.get());
      } else {
        res = "BADOP";
      }
      update_untracked(r.get());
      if (k == "Z") res = txdump(r.get());
      char h[16];
      snprintf(h, sizeof h, "#%08x", fnv32(dump(r.get())));
      out += k + ":" + res + h + " | ";
    }
    out += "END " + dump(r.get());
  } catch (internal_error& e) {
    out += "ERR:internal";
    fprintf(stderr, "internal_error: %s\n", e.what());
  } catch (std::exception& e) {
    out += std::string("ERR:other ") + e.what();
  }
  r->stop();
  r.reset();
  close_socks();
  return out;
}

// ---------------------------------------------------------------- dht::DhtSearch unit (case lines "S <target> <op>*")
//   a,id,ip,port  add_contact      g  get_contact      s,<id|first|last>,<0|1>  node_status      t  trim(true)      b  start()
#include "dht/transactions/dht_search.h"
static char sstat(const DhtNode* n) { return n->is_active() ? 'A' : n->is_good() ? 'G' : n->is_bad() ? 'B' : 'N'; }
static std::string sdump(dht::DhtSearch* s) {
  auto& m = (dht::DhtSearch::base_type&)(*s);   // C-style cast: the base is protected
  char buf[160];
  snprintf(buf, sizeof buf, "n=%zu p=%u c=%u r=%u k=%u rs=%d st=%d nx=%s [", m.size(), s->m_pending, s->m_contacted, s->m_replied,
           s->m_concurrency, s->m_restart ? 1 : 0, s->m_started ? 1 : 0,
           s->m_next == s->end() ? "-" : hx(s->m_next.node()->id()).c_str());
  std::string o = buf;
  bool first = true;
  for (auto& kv : m) {
    if (!first) o += ",";
    first = false;
    o += hx(kv.first->id()) + "/" + sstat(kv.first.get());
  }
  return o + "]";
}
static std::string run_search_case(const std::vector<std::string>& t) {
  if (t.size() < 2) return "BADCASE";
  set_now(400 * 86400);
  auto s = std::make_shared<dht::DhtSearch>(nullptr, hs(t[1]));
  auto& m = (dht::DhtSearch::base_type&)(*s);   // C-style cast: the base is protected
  std::string out;
  try {
    for (size_t i = 2; i < t.size(); i++) {
      auto f = split(t[i], ',');
      std::string res = "-";
      if (f[0] == "a") {
        sockaddr_in sin = mk_sin(std::stoul(f.at(2)), std::stoul(f.at(3)));
        res = s->add_contact(hs(f.at(1)), reinterpret_cast<const sockaddr*>(&sin)) ? "1" : "0";
      } else if (f[0] == "g") {
        auto c = s->get_contact();
        res = c == s->end() ? "none" : hx(c.node()->id());
      } else if (f[0] == "s") {
        const std::unique_ptr<DhtNode>* np = nullptr;
        for (auto& kv : m) {
          bool hit = f.at(1) == "first" || f.at(1) == "last" ? kv.first->is_active() : hx(kv.first->id()) == f.at(1);
          if (hit) { np = &kv.first; if (f.at(1) != "last") break; }
        }
        if (np == nullptr) { if (f.at(1) == "first" || f.at(1) == "last") res = "noactive"; else throw internal_error("no such contact"); }
        else s->node_status(*np, f.at(2) == "1");
      } else if (f[0] == "t") {
        s->trim(true);
      } else if (f[0] == "b") {
        res = s->start() ? "1" : "0";
      } else res = "BADOP";
      char h[16];
      snprintf(h, sizeof h, "#%08x", fnv32(sdump(s.get())));
      out += f[0] + ":" + res + h + " | ";
    }
    out += "END " + sdump(s.get()) + (s->complete() ? " complete" : "");
  } catch (internal_error& e) {
    out += "ERR:internal";
  }
  // the destructor asserts that nothing is pending
  for (auto& kv : m)
    if (kv.first->is_active()) s->node_status(kv.first, false);
  return out;
}

int main() {
  std_setup();
  torrent::initialize_main_thread();
  torrent::initialize();
  std::string line;
  while (std::getline(std::cin, line)) {
    auto t = split_ws(line);
    try {
      std::cout << (!t.empty() && t[0] == "S" ? run_search_case(t) : run_case(t)) << "\n";
    } catch (internal_error& e) {
      std::cout << "ERR:internal " << e.what() << "\n";
    } catch (std::exception& e) {
      std::cout << "ERR:other " << e.what() << "\n";
    }
  }
  return 0;
}
