// C11 session-level check of the wire clause ("a peer's choke state as told to it on the wire
// equals the client's own record"): the REAL client (session harness: real handshake, real
// PeerConnection<>::read_message / fill_write_buffer, real choke_queue / ResourceManager tick) with
// scripted wire peers that toggle INTERESTED, while the driver forces choke decisions through
// Peer::set_snubbed, the global upload limit and ticks. After every step, at quiescence, the
// CHOKE/UNCHOKE messages each peer received are compared with m_up_choke / m_send_choked.
//
// Case:  <npeers> ; op ; op ; ...      ops:  I<k> N<k>  (peer k sends INTERESTED / NOT_INTERESTED)
//        S<k> R<k> (Peer::set_snubbed(true/false) on peer k's connection)   A<secs> (advance the clock)
//        G<n> (ResourceManager::set_max_upload_unchoked(n))   K (advance 31 s: a choke cycle tick)
//        X<k> (peer k closes)
// Output: one token per op and peer "<k>:<rec><pend><msgs>" where rec = m_up_choke.unchoked(),
//   pend = m_send_choked, msgs = the CHOKE (c) / UNCHOKE (u) messages received during the step ("-" none),
//   "<k>:x" once the peer is closed.
#include "config.h"

#include <filesystem>

#include "common/session.h"
#include "common/wirepeer.h"
#include "protocol/peer_connection_base.h"
#include "torrent/download/resource_manager.h"
#include "torrent/exceptions.h"
#include "torrent/torrent.h"

using namespace ltv;

static Torrent* g_T = nullptr;
static uint32_t g_case_no = 0;

static std::string run_case(Session& S, const std::string& line) {
  std::vector<std::string> parts;
  { std::string cur; for (char ch : line) { if (ch == ';') { parts.push_back(cur); cur.clear(); } else cur.push_back(ch); } parts.push_back(cur); }
  auto hdr = split_ws(parts.at(0));
  if (hdr.size() != 1) return "BADCASE";
  int np = std::stoi(hdr[0]);
  if (np < 1 || np > 4) return "BADCASE";
  if (g_T == nullptr) {
    TorrentSpec spec;
    spec.name = "c11s";
    spec.piece_length = 32768;
    spec.content_seed = 11;
    spec.files = {{"a.bin", (uint64_t)32768 * 8}};
    g_T = S.add_torrent(spec);
    S.start(g_T);
  }
  torrent::resource_manager()->set_max_upload_unchoked(0);
  S.advance_us(1000000);
  g_case_no++;
  std::vector<std::unique_ptr<WirePeer>> peers(np);
  std::vector<bool> open(np, true);
  for (int k = 0; k < np; k++) {
    peers[k] = std::make_unique<WirePeer>();
    std::string ip = "127.11." + std::to_string(1 + (g_case_no % 250)) + "." + std::to_string(1 + k + 4 * ((g_case_no / 250) % 60));
    if (!peers[k]->connect_to(S.listen_port(), ip.c_str())) return "ERR:connect";
    char idbuf[21];
    snprintf(idbuf, sizeof idbuf, "-LV0011-%08u%04d", g_case_no, k);
    peers[k]->send_bytes(WirePeer::handshake(g_T->info_hash, std::string(idbuf, 20)) + WirePeer::keepalive());
    pump(S, {peers[k].get()});
    HandshakeIn hs;
    if (!peers[k]->take_handshake(hs) || hs.info_hash != g_T->info_hash) return "ERR:handshake";
    WireMsg m;
    while (peers[k]->next_message(m)) {}
  }
  auto pump_all = [&]() {
    for (int r = 0; r < 3; r++)
      for (int k = 0; k < np; k++)
        if (open[k]) pump(S, {peers[k].get()});
  };
  auto conn = [&](int k) -> torrent::PeerConnectionBase* {
    return open[k] ? S.find_connection(g_T, peers[k]->local_ip(), peers[k]->local_port()) : nullptr;
  };
  std::string out;
  for (size_t i = 1; i < parts.size(); i++) {
    auto t = split_ws(parts[i]);
    if (t.empty()) continue;
    char op = t[0][0];
    int arg = t[0].size() > 1 ? std::stoi(t[0].substr(1)) : 0;
    bool peer_op = (op == 'I' || op == 'N' || op == 'S' || op == 'R' || op == 'X');
    if (peer_op && (arg < 0 || arg >= np || !open[arg])) { /* ignored */ }
    else if (op == 'I') peers[arg]->send_bytes(WirePeer::interested());
    else if (op == 'N') peers[arg]->send_bytes(WirePeer::not_interested());
    else if (op == 'S') { auto pc = conn(arg); if (pc) S.force_choke(pc, true); }
    else if (op == 'R') { auto pc = conn(arg); if (pc) S.force_choke(pc, false); }
    else if (op == 'X') { peers[arg]->close_all(); open[arg] = false; }
    else if (op == 'A') S.advance_us((int64_t)arg * 1000000);
    else if (op == 'K') S.advance_us(31 * 1000000);
    else if (op == 'G') torrent::resource_manager()->set_max_upload_unchoked(arg);
    else return "BADCASE";
    pump_all();
    if (!out.empty()) out += " ";
    for (int k = 0; k < np; k++) {
      if (k) out += ",";
      out += std::to_string(k) + ":";
      auto pc = conn(k);
      if (!pc) { out += "x"; continue; }
      std::string msgs;
      WireMsg m;
      while (peers[k]->next_message(m)) {
        if (m.id == WirePeer::CHOKE) msgs += "c";
        else if (m.id == WirePeer::UNCHOKE) msgs += "u";
      }
      out += pc->m_up_choke.unchoked() ? "1" : "0";
      out += pc->m_send_choked ? "1" : "0";
      out += msgs.empty() ? "-" : msgs;
    }
  }
  for (int k = 0; k < np; k++) if (open[k]) peers[k]->close_all();
  pump(S, {});
  S.advance_us(1000000);
  pump(S, {});
  return out.empty() ? "-" : out;
}

int main() {
  std_setup();
  std::unique_ptr<Session> S;
  std::string line;
  while (std::getline(std::cin, line)) {
    try {
      if (!S) S = std::make_unique<Session>();
      std::cout << run_case(*S, line) << "\n";
    } catch (torrent::internal_error& e) {
      std::cout << "ERR:internal " << e.what() << "\n";
      std::cout.flush();
      { std::error_code ec; if (S) std::filesystem::remove_all(S->scratch(), ec); }
      _exit(3);
    } catch (std::exception& e) {
      std::cout << "ERR:other " << e.what() << "\n";
    }
  }
  S.reset();
  return 0;
}
