// C12 implementation driver: same case protocol as ocaml/c12_driver.ml, real ThrottleInternal /
// ThrottleList / ThrottleNode / Rate objects, no sockets. The clock is the cached time of a
// minimal Thread object; receive_tick() is called directly (its scheduler entry is erased first,
// as Scheduler::perform would have done before invoking the slot).
#include "config.h"
#include "common/util.h"

#include <chrono>
#include <map>

#include "net/throttle_internal.h"
#include "net/throttle_list.h"
#include "net/throttle_node.h"
#include "torrent/exceptions.h"
#include "torrent/system/scheduler.h"
#include "torrent/system/thread.h"
#include "torrent/throttle.h"

using namespace ltv;
using namespace std::chrono_literals;
using torrent::ThrottleInternal;
using torrent::ThrottleList;
using torrent::ThrottleNode;

class HThread : public torrent::system::Thread {
public:
  const char* name() const override { return "c12"; }
  void        set_time(std::chrono::microseconds t) { set_cached_time(t); }

protected:
  void                      call_events() override {}
  std::chrono::microseconds next_timeout() override { return 10min; }
};

static HThread* g_thread;

static const uint64_t T0 = 32000000000000ull;

static const char* err_tag(const char* w) {
  static const std::pair<const char*, const char*> tab[] = {
    {"m_splitActive is invalid", "enable_split"},
    {"called but the object is not enabled", "update_disabled"},
    {"node_quota(...) called on an inactive", "quota_inactive"},
    {"node_quota(...) could not find", "quota_notfound"},
    {"used too much quota", "used_too_much"},
    {"node_deactivate(...) called on an inactive", "deact_inactive"},
    {"node_deactivate(...) could not find", "deact_notfound"},
    {"called on an empty list", "erase_empty"},
    {"node->quota() > m_outstandingQuota", "erase_outstanding"},
    {"Rate::insert", "rate_insert"},
    {"to short interval", "tick_short"},
  };
  for (auto& p : tab)
    if (strstr(w, p.first)) return p.second;
  return "other";
}

struct Case {
  uint64_t                                        now = T0;
  ThrottleInternal*                               root = nullptr;
  std::vector<ThrottleInternal*>                  lists;
  std::map<std::pair<int, uint64_t>, ThrottleNode*> nodes;
  std::map<const ThrottleNode*, uint64_t>         ids;
  std::vector<std::pair<int, uint64_t>>           acts;

  Case() {
    g_thread->set_time(std::chrono::microseconds(now));
    root = static_cast<ThrottleInternal*>(torrent::Throttle::create_throttle());
    lists.push_back(root);
  }
  ~Case() {
    std::vector<ThrottleList*> slave_lists;
    for (size_t i = 1; i < lists.size(); i++) slave_lists.push_back(lists[i]->throttle_list());
    torrent::Throttle::destroy_throttle(root);
    for (auto l : slave_lists) delete l;
    for (auto& kv : nodes) delete kv.second;
  }
  ThrottleNode* node(int l, uint64_t k) {
    auto key = std::make_pair(l, k);
    auto it = nodes.find(key);
    if (it != nodes.end()) return it->second;
    auto n = new ThrottleNode(30);
    n->set_list_iterator(lists[l]->throttle_list()->end());
    n->slot_activate() = [this, l, k] { acts.emplace_back(l, k); };
    nodes[key] = n;
    ids[n] = k;
    return n;
  }
  std::string show_tl(ThrottleList* t) {
    std::string s;
    char buf[512];
    snprintf(buf, sizeof buf, "e=%d sz=%u o=%u ua=%u uu=%u ra=%u mn=%u mx=%u rs=%llu A[", t->m_enabled ? 1 : 0, t->m_size,
             t->m_outstandingQuota, t->m_unallocatedQuota, t->m_unusedUnthrottledQuota, t->m_rateAdded, t->m_minChunkSize,
             t->m_maxChunkSize, (unsigned long long)t->m_rateSlow.rate());
    s += buf;
    bool first = true;
    auto itr = t->begin();
    for (; itr != t->m_splitActive; ++itr) {
      if (!first) s += ",";
      first = false;
      s += std::to_string(ids[*itr]) + ":" + std::to_string((*itr)->quota());
    }
    s += "] I[";
    first = true;
    for (; itr != t->end(); ++itr) {
      if (!first) s += ",";
      first = false;
      s += std::to_string(ids[*itr]) + ":" + std::to_string((*itr)->quota());
    }
    s += "]";
    // a node outside the list must hold no quota; anything else is printed and will mismatch
    return s;
  }
  std::string dump() {
    char buf[256];
    snprintf(buf, sizeof buf, "t=%llu r=%llu un=%u nx=%d lt=%lld iv=%u | L0 ", (unsigned long long)now,
             (unsigned long long)root->m_maxRate, root->m_unused_quota, (int)(root->m_next_slave - root->m_slave_list.begin()),
             (long long)root->m_time_last_tick.count(), root->calculate_interval());
    std::string s = buf;
    s += show_tl(root->throttle_list());
    for (size_t i = 1; i < lists.size(); i++) {
      snprintf(buf, sizeof buf, " | L%zu r=%llu un=%u ", i, (unsigned long long)lists[i]->m_maxRate, lists[i]->m_unused_quota);
      s += buf;
      s += show_tl(lists[i]->throttle_list());
    }
    for (auto& kv : nodes)
      if (kv.second->list_iterator() == lists[kv.first.first]->throttle_list()->end() && kv.second->quota() != 0)
        s += " STRAY[" + std::to_string(kv.first.first) + ":" + std::to_string(kv.first.second) + ":" +
             std::to_string(kv.second->quota()) + "]";
    return s;
  }
  std::string show_acts() {
    std::string s = "act=";
    for (size_t i = 0; i < acts.size(); i++) {
      if (i) s += ",";
      s += std::to_string(acts[i].first) + ":" + std::to_string(acts[i].second);
    }
    return s;
  }
  void set_now(uint64_t t) {
    now = t;
    g_thread->set_time(std::chrono::microseconds(now));
  }
  // returns the op's output; throws internal_error through
  std::string apply(const std::vector<std::string>& t) {
    const std::string& k = t.at(0);
    acts.clear();
    auto L = [&](size_t i) { return std::stoi(t.at(i)); };
    auto N = [&](size_t i) { return (uint64_t)std::stoull(t.at(i)); };
    if (k == "T") {
      set_now(now + N(1));
      torrent::this_thread::scheduler()->erase(&root->m_task_tick);
      root->receive_tick();
      return show_acts();
    }
    if (k == "A") {
      set_now(now + N(1));
      return "ok";
    }
    if (k == "S") {
      lists.push_back(root->create_slave());
      return "ok";
    }
    int l = L(1);
    if (l < 0 || (size_t)l >= lists.size()) return "nolist";
    ThrottleList* tl = lists[l]->throttle_list();
    if (k == "R") {
      uint64_t v = N(2), old = lists[l]->m_maxRate;
      try {
        lists[l]->set_max_rate(v);
      } catch (torrent::input_error&) {
        return "ERR:input";
      }
      if (l == 0 && v != old && (old == 0 || v == 0)) return show_acts();
      return "ok";
    }
    if (k == "V") {
      tl->node_used_unthrottled((uint32_t)N(2));
      return "ok";
    }
    ThrottleNode* n = node(l, N(2));
    if (k == "I") { tl->insert(n); return "ok"; }
    if (k == "E") { tl->erase(n); return "ok"; }
    if (k == "Q") { return "q=" + std::to_string(tl->node_quota(n)); }
    if (k == "D") { tl->node_deactivate(n); return "ok"; }
    if (k == "U") { tl->node_used(n, (uint32_t)N(3)); return "ok"; }
    if (k == "X") {
      // one consumer step, as PeerConnectionBase::down_chunk / up_chunk do it
      if (!tl->is_throttled(n)) return "idle";
      if (tl->is_enabled() && !tl->is_active(n)) return "idle";   // not in the poll set
      uint32_t quota = tl->node_quota(n);
      if (quota == 0) { tl->node_deactivate(n); return "deact"; }
      uint64_t want = N(3);
      uint32_t moved = (uint32_t)std::min<uint64_t>(quota, want);
      tl->node_used(n, moved);
      return "x=" + std::to_string(moved);
    }
    throw std::runtime_error("op");
  }
};

static std::string run_case(const std::string& line) {
  Case c;
  std::string out;
  std::stringstream ss(line);
  std::string opstr;
  bool any = false;
  while (std::getline(ss, opstr, ',')) {
    auto t = split_ws(opstr);
    if (t.empty()) continue;
    std::string r;
    try {
      r = c.apply(t);
    } catch (torrent::internal_error& e) {
      if (any) out += " ; ";
      out += std::string("ERR:internal:") + err_tag(e.what());
      return out;
    }
    if (any) out += " ; ";
    any = true;
    out += r + "#" + c.dump();
  }
  return any ? out : "-";
}

// --params: the policy/constants the model is run with, PROBED from the compiled code (no source
// text involved): one line  "fraction_bits=.. list_min=.. list_max=.. tick_min_us=.. rate_bytes_shift=..
// rate_cur_shift=.. | rate:min:max ..."  for the rates given on stdin (one line, whitespace separated).
static int probe_params() {
  g_thread->set_time(std::chrono::microseconds(T0));
  std::string line;
  std::getline(std::cin, line);
  auto* root = static_cast<ThrottleInternal*>(torrent::Throttle::create_throttle());
  std::string out;
  {
    ThrottleList fresh;
    out += "fraction_bits=" + std::to_string(ThrottleInternal::fraction_bits) + " list_min=" + std::to_string(fresh.min_chunk_size()) +
           " list_max=" + std::to_string(fresh.max_chunk_size());
  }
  // smallest interval receive_tick() accepts (binary search on the behaviour)
  {
    uint64_t lo = 0, hi = 2000000;   // lo rejected (or 0), hi accepted
    auto accepted = [&](uint64_t dt) {
      auto* t = static_cast<ThrottleInternal*>(torrent::Throttle::create_throttle());
      t->m_maxRate = 1000;
      t->m_throttleList->enable();
      g_thread->set_time(std::chrono::microseconds(T0));
      t->m_time_last_tick = std::chrono::microseconds(T0);
      g_thread->set_time(std::chrono::microseconds(T0 + dt));
      bool ok = true;
      try { t->receive_tick(); } catch (torrent::internal_error&) { ok = false; }
      torrent::this_thread::scheduler()->erase(&t->m_task_tick);
      t->m_throttleList->disable();
      torrent::Throttle::destroy_throttle(t);
      return ok;
    };
    if (accepted(0)) hi = 0;
    while (hi - lo > 1) { uint64_t mid = (lo + hi) / 2; if (accepted(mid)) hi = mid; else lo = mid; }
    out += " tick_min_us=" + std::to_string(hi);
    g_thread->set_time(std::chrono::microseconds(T0));
  }
  // Rate::insert's own bounds: largest accepted single insert is 2^k, largest accepted m_current is 2^j
  {
    int kb = -1;
    for (int k = 8; k <= 62 && kb < 0; k++) {
      torrent::Rate r(60);
      try { r.insert((uint64_t{1} << k) + 1); } catch (torrent::internal_error&) { kb = k; }
    }
    int kc = -1;
    for (int k = 8; k <= 62 && kc < 0; k++) {
      torrent::Rate r(60);
      r.m_current = (uint64_t{1} << k) + 1;
      try { r.insert(1); } catch (torrent::internal_error&) { kc = k; }
    }
    out += " rate_bytes_shift=" + std::to_string(kb) + " rate_cur_shift=" + std::to_string(kc);
  }
  out += " |";
  for (auto& tok : split_ws(line)) {
    uint64_t v = std::stoull(tok);
    root->m_maxRate = v;
    out += " " + tok + ":" + std::to_string(root->calculate_min_chunk_size()) + ":" + std::to_string(root->calculate_max_chunk_size());
  }
  root->m_maxRate = 0;
  torrent::Throttle::destroy_throttle(root);
  puts(out.c_str());
  return 0;
}

int main(int argc, char** argv) {
  std_setup();
  g_thread = new HThread();
  torrent::system::Thread::m_self = g_thread;
  if (argc > 1 && std::string(argv[1]) == "--params") return probe_params();
  std::string line;
  while (std::getline(std::cin, line)) {
    std::string r;
    try {
      r = run_case(line);
    } catch (std::exception& e) {
      r = std::string("BADCASE ") + e.what();
    }
    fputs(r.c_str(), stdout);
    fputc('\n', stdout);
  }
  fflush(stdout);
  return 0;
}
