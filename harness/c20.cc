// C20 implementation driver: extension protocol (ut_metadata provider side, id map, PEX, read
// suspension) on the REAL library through the session harness. Same case protocol as
// ocaml/c20_driver.ml.
//
// Case:  pre=<hex> pad=<n> seed=<n> suf=<hex> minp=<n> | op op ...
//   info dictionary = unhex(pre) ++ pad bytes (content_byte(seed, i), i < n) ++ unhex(suf); the
//   torrent is "d4:info" ++ info ++ "e". No files are on disk (the client is a leecher that
//   provides metadata); minp = ConnectionList::min_size (drives the PEX enable/disable toggle).
// Ops (peer index i in 0..5, local address 127.0.0.(2+i); each index connects at most once):
//   c<i>            connect, BitTorrent handshake with the extension bit + keep-alive
//   e<i>            the same over an MSE-negotiated RC4 stream (harness/common/mseinit.h): everything both ways is encrypted
//   w<i>:drip<k>    unlimited again, reached through partial writes of at most k bytes each
//   b<i>:<item>/<item>/..  a batch of extended messages sent in ONE segment (< 500 bytes):
//                   H<fields>   extension handshake (id 0); fields comma separated, each optional:
//                               x<Z> m::ut_pex, m<Z> m::ut_metadata, p<Z> p, s<Z> metadata_size
//                   X<hex>      an incoming ut_pex message with 'added' = these bytes (generated for private torrents only)
//                   M<e>.<t>.<p> extended message with id byte e and { msg_type t, piece p }
//                               (e = 2, t = 0: a ut_metadata request)
//   t               every connected peer sends a keep-alive, then virtual time moves just past the
//                   next 2-minute download tick (do_peer_exchange + keep-alives / read timeout)
//   d<i>            the peer closes its socket
//   P1 / P0         the client calls Download::set_pex_enabled(true / false)
//   w<i>:0 / w<i>:inf  the library-side socket of peer i accepts no more bytes / is unlimited again
// Output: per op  "<op> => <events> # <snapshot>" joined by " ; ".
//   events: E<i>(id=..,k=v,..,pay=<len>:<md5>) per extended message a peer received; X<i> peer saw EOF
//   snapshot: per existing connection  S<i>[ids=<pex>,<meta> le=<pex><meta> rs=<pex><meta> ih=<b> ip=<b>
//             pend=<b> mask=<n> rd=<b> wr=<b> ds=<c> lp=<port>]   and  D[sp=<size_pex> pa=<b> list=<hex>]
#include "config.h"

#include <map>
#include <openssl/md5.h>

#include "common/session.h"
#include "common/wirepeer.h"
#include "common/mseinit.h"
#include "download/download_main.h"
#include "download/download_wrapper.h"
#include "protocol/extensions.h"
#include "protocol/peer_connection_base.h"
#include "torrent/download_info.h"
#include "torrent/exceptions.h"
#include "torrent/peer/connection_list.h"
#include "torrent/peer/peer_info.h"
#include <algorithm>
#include <arpa/inet.h>
#if defined(__SANITIZE_ADDRESS__)
#include <sanitizer/asan_interface.h>
#endif
#include "torrent/peer/peer.h"
#include "torrent/system/poll.h"
#include "torrent/torrent.h"
#include "torrent/data/file_list.h"
#include <filesystem>
#include <openssl/sha.h>
#include <unistd.h>

using namespace ltv;
namespace fs = std::filesystem;

static std::string md5hex(const std::string& s) {
  unsigned char md[16];
  MD5((const unsigned char*)s.data(), s.size(), md);
  return hex((const char*)md, 16);
}

// ---- minimal bencode reader for the messages the library sends (flat, keys reported as a::b)
struct BenItem { std::string key; bool is_int; std::string val; };
static bool ben_parse(const std::string& s, size_t& pos, const std::string& prefix, std::vector<BenItem>& out, int depth) {
  if (pos >= s.size() || depth > 8) return false;
  char c = s[pos];
  if (c == 'i') {
    size_t e = s.find('e', pos);
    if (e == std::string::npos) return false;
    out.push_back({prefix, true, s.substr(pos + 1, e - pos - 1)});
    pos = e + 1;
    return true;
  }
  if (c >= '0' && c <= '9') {
    size_t col = s.find(':', pos);
    if (col == std::string::npos) return false;
    size_t n = std::stoul(s.substr(pos, col - pos));
    if (col + 1 + n > s.size()) return false;
    out.push_back({prefix, false, s.substr(col + 1, n)});
    pos = col + 1 + n;
    return true;
  }
  if (c == 'd') {
    pos++;
    while (pos < s.size() && s[pos] != 'e') {
      std::vector<BenItem> k;
      if (!ben_parse(s, pos, "", k, depth + 1) || k.size() != 1 || k[0].is_int) return false;
      if (!ben_parse(s, pos, prefix.empty() ? k[0].val : prefix + "::" + k[0].val, out, depth + 1)) return false;
    }
    if (pos >= s.size()) return false;
    pos++;
    return true;
  }
  if (c == 'l') {
    pos++;
    int n = 0;
    while (pos < s.size() && s[pos] != 'e')
      if (!ben_parse(s, pos, prefix + "[" + std::to_string(n++) + "]", out, depth + 1)) return false;
    if (pos >= s.size()) return false;
    pos++;
    return true;
  }
  return false;
}

// The property constrains WHICH 6-byte entries a PEX message / m_ut_pex_list holds, not their order:
// entries are printed as a set, in one canonical order (address bytes 3,2,1,0 then the port bytes).
static std::string canon_entries(const std::string& raw) {
  if (raw.size() % 6 != 0) return raw;   // partial entries are shown as they are (the oracle reports them)
  std::vector<std::string> v;
  for (size_t k = 0; k + 6 <= raw.size(); k += 6) v.push_back(raw.substr(k, 6));
  auto key = [](const std::string& e) { return std::string() + e[3] + e[2] + e[1] + e[0] + e[4] + e[5]; };
  std::sort(v.begin(), v.end(), [&](const std::string& a, const std::string& b) { return key(a) < key(b); });
  std::string o;
  for (auto& e : v) o += e;
  return o;
}

static std::string show_ext(int idx, const WireMsg& m, uint16_t listen_port) {
  std::string o = "E" + std::to_string(idx) + "(";
  if (m.body.empty()) return o + "EMPTY)";
  o += "id=" + std::to_string((unsigned char)m.body[0]);
  std::string rest = m.body.substr(1);
  size_t pos = 0;
  std::vector<BenItem> items;
  if (!ben_parse(rest, pos, "", items, 0)) return o + ",BADBENCODE:" + hex(rest.substr(0, 64)) + ")";
  for (auto& it : items) {
    if (it.key == "v" || it.key == "e") continue;
    if (it.key == "p") { o += std::string(",p=") + (it.val == std::to_string(listen_port) ? "L" : it.val); continue; }
    o += "," + it.key + "=" + (it.is_int ? it.val : hex((it.key == "added" || it.key == "dropped") ? canon_entries(it.val) : it.val));
  }
  std::string pay = rest.substr(pos);
  o += ",pay=" + std::to_string(pay.size()) + ":" + (pay.empty() ? "-" : md5hex(pay)) + ")";
  return o;
}

struct Peer {
  std::unique_ptr<WirePeer> w;
  std::unique_ptr<MseInitiator> mse;   // e<i>: RC4 stream both ways after an MSE negotiation
  uint16_t port = 0;
  bool eof_reported = false;
  bool enc() const { return (bool)mse; }
  WirePeer& rx() { return mse ? mse->plain : *w; }                              // decrypted receive side
  void send(const std::string& b) { w->send_bytes(mse ? mse->seal(b) : b); }    // encrypt exactly once
};

static const int NPEERS = 6;
static uint32_t g_case_no = 0;

static std::string snapshot(Session& S, torrent::Download dl, Torrent* /*unused*/, std::map<int, Peer>& peers) {
  std::string o;
  auto* cl = dl.connection_list();
  for (auto& kv : peers) {
    if (!kv.second.w || kv.second.w->fd == -1) continue;   // closed by d<i>: its port may be reused by a later peer
    torrent::PeerConnectionBase* pcb = nullptr;
    for (torrent::Peer* p : *cl) {
      auto* c = p->m_ptr();
      if (c->file_descriptor() < 0) continue;
      sockaddr_in a{};
      socklen_t n = sizeof a;
      if (getpeername(c->file_descriptor(), (sockaddr*)&a, &n) == 0 && ntohs(a.sin_port) == kv.second.port &&
          (ntohl(a.sin_addr.s_addr) & 0xff) == (unsigned)(2 + kv.first)) pcb = c;   // ports may repeat across local addresses
    }
    if (pcb == nullptr) continue;
    auto* e = pcb->m_extensions;
    char buf[256];
    char ds = '?';
    switch (pcb->m_down->get_state()) {
    case torrent::ProtocolBase::IDLE: ds = 'I'; break;
    case torrent::ProtocolBase::READ_EXTENSION: ds = 'E'; break;
    default: break;
    }
    if (e->is_default()) {
      snprintf(buf, sizeof buf, "S%d[default rd=%d wr=%d ds=%c lp=%u] ", kv.first,
               (int)torrent::this_thread::poll()->in_read(pcb), (int)torrent::this_thread::poll()->in_write(pcb), ds,
               (unsigned)pcb->peer_info()->listen_port());
    } else {
      snprintf(buf, sizeof buf, "S%d[ids=%u,%u le=%d%d rs=%d%d ih=%d ip=%d pend=%d mask=%d rd=%d wr=%d ds=%c up=%c buf=%u lp=%u] ", kv.first,
               (unsigned)e->id(torrent::ProtocolExtension::UT_PEX), (unsigned)e->id(torrent::ProtocolExtension::UT_METADATA),
               (int)e->is_local_enabled(torrent::ProtocolExtension::UT_PEX), (int)e->is_local_enabled(torrent::ProtocolExtension::UT_METADATA),
               (int)e->is_remote_supported(torrent::ProtocolExtension::UT_PEX), (int)e->is_remote_supported(torrent::ProtocolExtension::UT_METADATA),
               (int)e->is_initial_handshake(), (int)e->is_initial_pex(), (int)e->has_pending_message(), pcb->m_send_pex_mask,
               (int)torrent::this_thread::poll()->in_read(pcb), (int)torrent::this_thread::poll()->in_write(pcb), ds,
               pcb->m_up->get_state() == torrent::ProtocolBase::IDLE ? 'I' : 'B', (unsigned)pcb->m_down->buffer()->remaining(),
               (unsigned)pcb->peer_info()->listen_port());
    }
    o += buf;
#if defined(__SANITIZE_ADDRESS__)
    // the message in flight must be live memory (the harness's own ::send interposition hides the read from ASan)
    if (!pcb->m_extension_message.empty() && pcb->m_extension_message.length() > 0 &&
        __asan_region_is_poisoned(pcb->m_extension_message.data(), pcb->m_extension_message.length()) != nullptr)
      o += "UAF" + std::to_string(kv.first) + "(extension message in flight points into freed memory) ";
#endif
  }
  auto* main = dl.ptr()->main();
  std::string list;
  for (auto& a : main->m_ut_pex_list) list += std::string((const char*)&a, 6);
  list = canon_entries(list);
  o += "D[sp=" + std::to_string(main->info()->size_pex()) + " pa=" + (main->info()->is_pex_active() ? "1" : "0") + " list=" + hex(list) +
       " av=" + std::to_string(dl.peer_list()->available_list_size()) + "]";
  return o;
}

static std::string benc_int_field(const std::string& key, const std::string& z) {
  return std::to_string(key.size()) + ":" + key + "i" + z + "e";
}

static std::string run_case(Session& S, const std::string& line) {
  size_t bar = line.find('|');
  if (bar == std::string::npos) return "BADCASE";
  std::map<std::string, std::string> kv;
  for (auto& tok : split_ws(line.substr(0, bar))) {
    size_t e = tok.find('=');
    if (e != std::string::npos) kv[tok.substr(0, e)] = tok.substr(e + 1);
  }
  auto ops = split_ws(line.substr(bar + 1));
  g_case_no++;

  std::string info = unhex(kv["pre"]);
  {
    uint32_t n = std::stoul(kv["pad"]), seed = std::stoul(kv["seed"]);
    std::string pad(n, '\0');
    for (uint32_t i = 0; i < n; i++) pad[i] = (char)content_byte(seed, i);
    info += pad + unhex(kv["suf"]);
  }
  unsigned char md[20];
  SHA1((const unsigned char*)info.data(), info.size(), md);
  std::string info_hash((char*)md, 20);

  torrent::Download dl;
  try {
    dl = S.add_raw("d4:info" + info + "e");
  } catch (torrent::base_error& e) {
    return std::string("ERR:add ") + e.what();
  }
  std::string root = S.scratch() + "/c" + std::to_string(g_case_no);
  fs::create_directories(root);
  dl.file_list()->set_root_dir(root);
  dl.open(0);
  dl.hash_check(false);
  if (!S.settle([dl]() { return dl.is_hash_checked(); }, 30000)) return "ERR:hashcheck";
  if (kv.count("minp")) dl.connection_list()->set_min_size(std::stoul(kv["minp"]));
  dl.start(0);
  S.step();
  // normalise the phase: every op happens 1 us after a 2-minute download tick
  auto to_pex_tick = [&]() {
    do {
      int64_t d = S.next_tick_in_us();
      S.advance_us((d < 0 ? 0 : d) + 1);
    } while (S.tick_count() % 4 != 0);
  };
  // notick=1: the scenario starts in the start-up window, before the download's first 2-minute tick
  if (!(kv.count("notick") && kv["notick"] == "1")) to_pex_tick();

  std::map<int, Peer> peers;
  std::string out;
  bool internal = false;

  auto collect = [&]() {
    std::string ev;
    for (auto& pk : peers) {
      Peer& P = pk.second;
      if (!P.w) continue;
      WireMsg m;
      if (P.mse) P.mse->absorb();
      while (P.rx().next_message(m))
        if (m.id == WirePeer::EXTENDED) ev += show_ext(pk.first, m, S.listen_port()) + " ";
      if (P.w->eof && !P.eof_reported) {
        P.eof_reported = true;
        ev += "X" + std::to_string(pk.first) + " ";
      }
    }
    return ev;
  };
  auto pump_all = [&]() {
    for (int round = 0; round < 200; round++) {
      bool moved = false;
      for (auto& pk : peers)
        if (pk.second.w && pk.second.w->fd != -1 && pk.second.w->flush() > 0) moved = true;
      if (S.step()) moved = true;
      for (auto& pk : peers)
        if (pk.second.w && pk.second.w->fd != -1 && pk.second.w->recv_available() > 0) moved = true;
      if (!moved) {
        // real-time slack for loopback delivery: three quiet rounds in a row (a loaded machine delays ACKs)
        bool again = false;
        for (int q = 0; q < 3 && !again; q++) {
          usleep(400);
          for (auto& pk : peers)
            if (pk.second.w && pk.second.w->fd != -1 && pk.second.w->flush() > 0) again = true;
          if (S.step()) again = true;
          for (auto& pk : peers)
            if (pk.second.w && pk.second.w->fd != -1 && pk.second.w->recv_available() > 0) again = true;
        }
        if (!again) break;
      }
    }
  };

  try {
    for (auto& op : ops) {
      std::string ev;
      char k = op[0];
      if (k == 't') {
        for (auto& pk : peers)
          if (pk.second.w && pk.second.w->fd != -1) pk.second.send(WirePeer::keepalive());
        pump_all();
        to_pex_tick();
        pump_all();
      } else if (k == 'P') {
        // the client applies its PEX setting through the public API (rtorrent does so for every download)
        dl.set_pex_enabled(op.size() > 1 && op[1] == '1');
        pump_all();
      } else {
        int idx = op[1] - '0';
        if (idx < 0 || idx >= NPEERS) return "BADCASE";
        std::string arg = op.size() > 3 ? op.substr(3) : "";
        if (k == 'c' || k == 'e') {
          if (peers.count(idx)) return "BADCASE";   // normal form: an index connects at most once
          Peer& P = peers[idx];
          P.w = std::make_unique<WirePeer>();
          std::string ip = "127.0.0." + std::to_string(2 + idx);
          if (!P.w->connect_to(S.listen_port(), ip.c_str(), 1 << 20, 0)) return "ERR:connect";
          P.port = P.w->local_port();
          char idbuf[21];
          snprintf(idbuf, sizeof idbuf, "-LV0020-%010u%02d", g_case_no, idx);
          if (k == 'e') {
            P.mse = std::make_unique<MseInitiator>(*P.w, 5000 + g_case_no * 8 + idx);
            if (!P.mse->negotiate(S, info_hash)) return "ERR:mse";
          }
          P.send(WirePeer::handshake(info_hash, std::string(idbuf, 20), WirePeer::reserved_ext()) + WirePeer::keepalive());
          pump_all();
          if (P.mse) P.mse->absorb();
          HandshakeIn hs;
          if (!P.rx().take_handshake(hs) || hs.info_hash != info_hash) ev += "NOHANDSHAKE ";
        } else if (k == 'b') {
          if (!peers.count(idx) || !peers[idx].w) return "BADCASE";
          std::string batch;
          size_t p = 0;
          while (p <= arg.size()) {
            size_t q = arg.find('/', p);
            std::string item = arg.substr(p, q == std::string::npos ? std::string::npos : q - p);
            if (!item.empty() && item[0] == 'H') {
              std::string mx, mm, fp, fs_;
              std::string body = item.substr(1);
              size_t a = 0;
              while (a <= body.size()) {
                size_t c = body.find(',', a);
                std::string f = body.substr(a, c == std::string::npos ? std::string::npos : c - a);
                if (f.size() >= 2) {
                  std::string v = f.substr(1);
                  switch (f[0]) {
                  case 'x': mx = v; break;
                  case 'm': mm = v; break;
                  case 'p': fp = v; break;
                  case 's': fs_ = v; break;
                  }
                }
                if (c == std::string::npos) break;
                a = c + 1;
              }
              // keys sorted: m { ut_metadata, ut_pex }, metadata_size, p
              std::string msg = "d1:md";
              if (!mm.empty()) msg += benc_int_field("ut_metadata", mm);
              if (!mx.empty()) msg += benc_int_field("ut_pex", mx);
              msg += "e";
              if (!fs_.empty()) msg += benc_int_field("metadata_size", fs_);
              if (!fp.empty()) msg += benc_int_field("p", fp);
              msg += "e";
              batch += WirePeer::extended(0, msg);
            } else if (!item.empty() && item[0] == 'X') {
              // X<hex>: an incoming ut_pex message (our id for ut_pex is 1) whose 'added' is these bytes
              std::string added = unhex(item.substr(1));
              batch += WirePeer::extended(torrent::ProtocolExtension::UT_PEX, "d5:added" + std::to_string(added.size()) + ":" + added + "e");
            } else if (!item.empty() && item[0] == 'M') {
              std::string f = item.substr(1);
              size_t a = f.find('.'), c = f.find('.', a + 1);
              if (a == std::string::npos || c == std::string::npos) return "BADCASE";
              int eid = std::stoi(f.substr(0, a));
              batch += WirePeer::extended((uint8_t)eid, "d8:msg_typei" + f.substr(a + 1, c - a - 1) + "e5:piecei" + f.substr(c + 1) + "ee");
            } else if (!item.empty()) {
              return "BADCASE";
            }
            if (q == std::string::npos) break;
            p = q + 1;
          }
          if (batch.size() >= 500) return "BADCASE";
          if (peers[idx].w->fd != -1) peers[idx].send(batch);   // after d<i>: nothing to send to
          pump_all();
        } else if (k == 'd') {
          if (peers[idx].w) { peers[idx].w->close_all(); peers[idx].eof_reported = true; }
          pump_all();
        } else if (k == 'w') {
          // w<i>:0  the library-side socket of peer i accepts no more bytes (send() -> EAGAIN)
          // w<i>:inf  unlimited again
          if (!peers.count(idx)) return "BADCASE";
          if (arg.compare(0, 4, "drip") == 0) {
            // unlimited in the end, but the library gets there through many partial writes of <= k bytes
            int64_t kq = std::stol(arg.substr(4));
            if (kq < 1) return "BADCASE";
            Session::set_send_budget(peers[idx].port, 0);
            for (int rounds = 0, quiet = 0; rounds < 20000 && quiet < 2; rounds++) {
              Session::set_send_budget(peers[idx].port, kq);
              pump_all();
              quiet = Session::send_budget(peers[idx].port) == kq ? quiet + 1 : 0;
            }
            Session::set_send_budget(peers[idx].port, -1);
          } else {
            Session::set_send_budget(peers[idx].port, arg == "0" ? 0 : -1);
          }
          pump_all();
        } else {
          return "BADCASE";
        }
      }
      ev += collect();
      if (!out.empty()) out += " ; ";
      out += op + " => " + ev + "# " + snapshot(S, dl, nullptr, peers);
    }
  } catch (torrent::internal_error& e) {
    internal = true;
    fprintf(stderr, "[c20] internal_error: %s\n", e.what());
    if (!out.empty()) out += " ; ";
    out += "ERR:internal";
  }
  if (internal) {
    printf("%s\n", out.c_str());
    fflush(stdout);
    _exit(0);   // the session is unusable after an internal_error
  }
  Session::clear_io_limits();
  for (auto& pk : peers)
    if (pk.second.w) pk.second.w->close_all();
  try {
    S.step();
    dl.stop(torrent::Download::stop_skip_tracker);
    dl.close(0);
    S.step();
    torrent::download_remove(dl);
    S.step();
  } catch (torrent::base_error& e) {
    out += std::string(" ; ERR:cleanup ") + e.what();
  }
  std::error_code ec;
  fs::remove_all(root, ec);
  return out;
}

// ---- unit-level PEX rounds (case "U | ops"): DownloadMain::do_peer_exchange with many fake connections,
// for the > 200 listed peers branch that 6 scripted peers cannot reach.
//   A<lo>-<hi>:<base>  connect fake peers lo..hi (peer k: address 10.0.(k%256).(k/256), listen port base+k; base 0 = no port)
//   R<lo>-<hi>         disconnect them (ConnectionList order: swap with last)
//   x                  one do_peer_exchange round
// Output per x: list=<k:port,...> ini=<added>/<dropped> del=<added>/<dropped>   ("-" = empty DataBuffer)
struct FakePeer : public torrent::PeerConnectionBase {
  void initialize_custom() override {}
  void update_interested() override {}
  bool receive_keepalive() override { return true; }
  void event_read() override {}
  void event_write() override {}
};

static std::string show_entries(const char* p0, size_t n) {
  std::string o, canon = canon_entries(std::string(p0, n));
  const char* p = canon.data();
  for (size_t k = 0; k + 6 <= n; k += 6) {
    const unsigned char* e = (const unsigned char*)p + k;
    unsigned idx = e[3] * 256u + e[2];
    unsigned port = e[4] * 256u + e[5];
    if (!o.empty()) o += ",";
    o += std::to_string(idx) + ":" + std::to_string(port);
  }
  return o.empty() ? "." : o;
}

static std::string show_pexbuf(const torrent::DataBuffer& b) {
  if (b.empty()) return "-";
  std::string s(b.data(), b.length());
  // d5:added<n>:<bytes>7:dropped<m>:<bytes>e
  size_t p = 8, c = s.find(':', p);
  size_t n = std::stoul(s.substr(p, c - p));
  std::string added = s.substr(c + 1, n);
  p = c + 1 + n + 9;
  c = s.find(':', p);
  size_t m = std::stoul(s.substr(p, c - p));
  std::string dropped = s.substr(c + 1, m);
  return show_entries(added.data(), added.size()) + "/" + show_entries(dropped.data(), dropped.size());
}

static std::string run_unit_case(Session& S, const std::string& line) {
  g_case_no++;
  auto ops = split_ws(line.substr(line.find('|') + 1));
  std::string name = "c20u" + std::to_string(g_case_no);
  std::string info = "d6:lengthi40000e4:name" + std::to_string(name.size()) + ":" + name + "12:piece lengthi16384e6:pieces60:" + std::string(60, 'u') + "e";
  torrent::Download dl = S.add_raw("d4:info" + info + "e");
  std::string root = S.scratch() + "/u" + std::to_string(g_case_no);
  fs::create_directories(root);
  dl.file_list()->set_root_dir(root);
  dl.open(0);
  dl.hash_check(false);
  if (!S.settle([dl]() { return dl.is_hash_checked(); }, 30000)) return "ERR:hashcheck";
  dl.start(0);
  S.step();
  auto* main = dl.ptr()->main();
  // the private base container, whatever its type is (ROBUSTNESS rule 2): push_back / back / pop_back / begin / end only
  auto* vec = (torrent::ConnectionList::base_type*)dl.connection_list();
  std::map<unsigned, FakePeer*> fakes;
  static torrent::ProtocolExtension default_ext = torrent::ProtocolExtension::make_default();
  std::string out;
  try {
    for (auto& op : ops) {
      if (op[0] == 'A' || op[0] == 'R') {
        size_t dash = op.find('-'), col = op.find(':');
        unsigned lo = std::stoul(op.substr(1, dash - 1));
        unsigned hi = std::stoul(op.substr(dash + 1, col == std::string::npos ? std::string::npos : col - dash - 1));
        unsigned base = col == std::string::npos ? 0 : std::stoul(op.substr(col + 1));
        for (unsigned k = lo; k <= hi && k < 4096; k++) {
          if (op[0] == 'A') {
            if (fakes.count(k)) continue;
            auto* p = new FakePeer;
            sockaddr_in sin{};
            sin.sin_family = AF_INET;
            sin.sin_port = htons(50000);
            std::string ip = "10.0." + std::to_string(k % 256) + "." + std::to_string(k / 256);
            inet_pton(AF_INET, ip.c_str(), &sin.sin_addr);
            p->m_peerInfo = new torrent::PeerInfo((sockaddr*)&sin);
            p->m_peerInfo->set_listen_port(base == 0 ? 0 : (uint16_t)(base + k));
            p->m_download = main;
            p->m_extensions = &default_ext;
            vec->push_back(p);
            fakes[k] = p;
          } else {
            auto it = fakes.find(k);
            if (it == fakes.end()) continue;
            auto pos = std::find(std::begin(*vec), std::end(*vec), static_cast<torrent::Peer*>(it->second));
            if (pos != vec->end()) { *pos = vec->back(); vec->pop_back(); }
            fakes.erase(it);
          }
        }
      } else if (op == "x") {
        main->do_peer_exchange();
        std::string list;
        for (auto& a : main->m_ut_pex_list) list += std::string((const char*)&a, 6);
        if (!out.empty()) out += " ; ";
        out += "x => list=" + show_entries(list.data(), list.size()) + " ini=" + show_pexbuf(main->m_ut_pex_initial) + " del=" + show_pexbuf(main->m_ut_pex_delta);
      } else {
        return "BADCASE";
      }
    }
  } catch (torrent::internal_error& e) {
    if (!out.empty()) out += " ; ";
    out += "ERR:internal";
  }
  // the fake connections never reach the library's own teardown
  for (auto& f : fakes) {
    auto pos = std::find(std::begin(*vec), std::end(*vec), static_cast<torrent::Peer*>(f.second));
    if (pos != vec->end()) { *pos = vec->back(); vec->pop_back(); }
  }
  fakes.clear();   // (objects intentionally leaked: their destructor expects a fully initialised connection)
  dl.stop(torrent::Download::stop_skip_tracker);
  dl.close(0);
  S.step();
  torrent::download_remove(dl);
  S.step();
  std::error_code ec;
  fs::remove_all(root, ec);
  return out;
}

// ---- the order policy of SocketAddressCompact_less, probed on the compiled code (ROBUSTNESS rule 4):
// two fake peers whose raw (little-endian read) and numeric orders differ, once by address, once by port.
static std::string probe_order(Session& S) {
  std::string name = "c20probe";
  std::string info = "d6:lengthi40000e4:name" + std::to_string(name.size()) + ":" + name + "12:piece lengthi16384e6:pieces60:" + std::string(60, 'p') + "e";
  torrent::Download dl = S.add_raw("d4:info" + info + "e");
  std::string root = S.scratch() + "/probe";
  fs::create_directories(root);
  dl.file_list()->set_root_dir(root);
  dl.open(0);
  dl.hash_check(false);
  if (!S.settle([dl]() { return dl.is_hash_checked(); }, 30000)) return "ord=??";
  dl.start(0);
  S.step();
  auto* main = dl.ptr()->main();
  auto* vec = (torrent::ConnectionList::base_type*)dl.connection_list();
  static torrent::ProtocolExtension default_ext = torrent::ProtocolExtension::make_default();
  auto add = [&](const char* ip, uint16_t port) {
    auto* p = new FakePeer;
    sockaddr_in sin{};
    sin.sin_family = AF_INET;
    sin.sin_port = htons(50000);
    inet_pton(AF_INET, ip, &sin.sin_addr);
    p->m_peerInfo = new torrent::PeerInfo((sockaddr*)&sin);
    p->m_peerInfo->set_listen_port(port);
    p->m_download = main;
    p->m_extensions = &default_ext;
    vec->push_back(p);
  };
  auto first = [&]() {
    main->do_peer_exchange();
    std::string e;
    for (auto& a : main->m_ut_pex_list) { e = std::string((const char*)&a, 6); break; }
    return e;
  };
  std::string r = "ord=";
  add("10.0.1.0", 5);   // raw little-endian: smaller; numeric: larger
  add("10.0.0.1", 5);
  std::string e = first();
  r += (e.size() == 6 && (unsigned char)e[2] == 1) ? "0" : "1";
  vec->clear();
  main->do_peer_exchange();
  add("10.0.9.9", 1);   // port 1: raw (bytes 00 01 read little-endian = 256) larger; numeric smaller
  add("10.0.9.8", 256);
  vec->clear();
  add("10.0.9.9", 1);
  add("10.0.9.9", 256);
  e = first();
  r += (e.size() == 6 && (unsigned char)e[4] == 1) ? "0" : "1";   // first entry is port 256 (bytes 01 00) under the raw order
  vec->clear();
  dl.stop(torrent::Download::stop_skip_tracker);
  dl.close(0);
  S.step();
  torrent::download_remove(dl);
  S.step();
  return r;
}

// ---- per-case watchdog (ROBUSTNESS rule 5): a case that does not finish is one HANG result, the run goes on
static void on_alarm(int) {
  static const char msg[] = "HANG\n";
  ssize_t r = write(1, msg, sizeof msg - 1);
  (void)r;
  _exit(0);
}

// ---- constants read from the COMPILED code (ROBUSTNESS rule 3); the glue compares them with ParamsGen.v
static void print_params() {
  printf("c20_metadata_piece_shift=%zu\n", (size_t)torrent::ProtocolExtension::metadata_piece_shift);
  printf("c20_max_pex_list=%u\n", (unsigned)torrent::DownloadInfo::max_size_pex_list());
  torrent::DownloadInfo di;
  printf("c20_max_size_pex=%u\n", (unsigned)di.max_size_pex());
}

int main(int argc, char** argv) {
  std_setup();
  if (argc > 1 && std::string(argv[1]) == "--params") { print_params(); return 0; }
  signal(SIGALRM, on_alarm);
  Session S;
  if (argc > 1 && std::string(argv[1]) == "--probe-order") { alarm(60); printf("%s\n", probe_order(S).c_str()); fflush(stdout); _exit(0); }
  std::string line;
  while (std::getline(std::cin, line)) {
    if (line.empty()) { std::cout << "\n"; continue; }
    std::string r;
    alarm(30);
    try {
      r = line.compare(0, 2, "U ") == 0 ? run_unit_case(S, line) : run_case(S, line);
    } catch (torrent::internal_error& e) {
      printf("ERR:internal %s\n", e.what());
      fflush(stdout);
      _exit(0);
    } catch (std::exception& e) {
      r = std::string("ERR:exception ") + e.what();
    }
    alarm(0);
    std::cout << r << "\n";
  }
  return 0;
}
