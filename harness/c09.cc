// C09 harness: the REAL initial hash check (Download::open/hash_check/hash_stop/close,
// HashTorrent, HashQueue, ChunkList, FileList, File) over generated on-disk states, with the
// delivery of hash results from the disk thread to the main thread put under the control of the
// case's op list.
//
// Case line (same as ocaml/c09_driver.ml):
//   <piece_len> <seed> <len>:<f|p> ...  |  <disk perturbations>  |  <ops>
// Output:  snapshots ';'-joined  # final disk tokens  ierr=0   ||  extras for the oracle
//
// Delivery control.  The disk thread hashes queued chunks at its own pace and hands each result to
// HashQueue::chunk_done, which stores it in m_done_chunks under m_done_chunks_lock; the main
// thread's HashQueue::work() later drains that map.  The harness (which IS the main thread)
// takes finished results out of m_done_chunks into a stash (under the same lock) and puts a
// chosen one back right before it calls work(): exactly the executions in which the disk
// thread's chunk_done calls happen later / in that order.  Before hash_stop/close every stashed
// result is put back (HashQueue::remove would otherwise wait for it forever).  The lower-case
// ops s/x/w do NOT wait for the disk thread first, so they run the real race.
#include "config.h"

#include <algorithm>
#include <filesystem>
#include <fstream>
#include <map>
#include <set>
#include <sys/stat.h>
#include <thread>
#include <unistd.h>

#include <openssl/sha.h>

#include "common/session.h"
#include "common/supervise.h"
#include "data/chunk_list.h"
#include "data/hash_chunk.h"
#include "data/hash_queue.h"
#include "data/hash_check_queue.h"
#include "data/hash_torrent.h"
#include "data/thread_disk.h"
#include "download/download_main.h"
#include "download/download_wrapper.h"
#include "thread_main.h"
#include "torrent/data/file.h"
#include "torrent/data/file_list.h"
#include "torrent/data/download_data.h"
#include "torrent/download_info.h"
#include "torrent/exceptions.h"
#include "torrent/torrent.h"
#include "torrent/runtime/memory_manager.h"

using namespace ltv;
namespace fs = std::filesystem;

namespace {

struct FileDesc { uint64_t len; bool pad; };

// The disk thread hands every finished chunk to HashCheckQueue::m_slot_chunk_done (normally HashQueue::chunk_done).  The
// harness puts itself in between: results go to an inbox until the op list says which one arrives (race-free, whatever the
// main loop does meanwhile); while g_free_run is set they take the real path at once (ops s x z w: the real race).
std::mutex g_inbox_lock;
std::vector<std::pair<torrent::HashChunk*, torrent::HashString>> g_inbox;
std::atomic<bool> g_free_run{false};
std::function<void(torrent::HashChunk*, const torrent::HashString&)> g_orig_chunk_done;

void install_interposer() {
  auto* q = torrent::ThreadDisk::thread_disk()->hash_check_queue();
  for (int i = 0; i < 2000 && !q->m_slot_chunk_done; i++) std::this_thread::sleep_for(std::chrono::milliseconds(1));
  g_orig_chunk_done = q->m_slot_chunk_done;
  q->m_slot_chunk_done = [](torrent::HashChunk* hc, const torrent::HashString& hv) {
    {
      std::scoped_lock l(g_inbox_lock);      // the flag is read and flipped under the inbox lock: no result is stranded
      if (!g_free_run.load()) { g_inbox.emplace_back(hc, hv); return; }
    }
    g_orig_chunk_done(hc, hv);
  };
}

void set_free_run(bool v) {
  std::scoped_lock l(g_inbox_lock);
  g_free_run = v;
}

uint64_t g_saved_limit = 0;   // MemoryManager::m_max_memory_usage before a case lowered it

uint32_t fnv(const std::string& s) {
  uint32_t h = 2166136261u;
  for (unsigned char c : s) { h ^= c; h *= 16777619u; }
  return h;
}

std::string sha1_hex(const std::string& s) {
  unsigned char md[20];
  SHA1((const unsigned char*)s.data(), s.size(), md);
  return hex((const char*)md, 20);
}

bool read_file(const std::string& p, std::string& out) {
  std::ifstream f(p, std::ios::binary);
  if (!f) return false;
  out.assign(std::istreambuf_iterator<char>(f), std::istreambuf_iterator<char>());
  return true;
}

// insert (chunk, digest) into HashQueue's container of finished chunks whatever its type is (associative or sequence)
template <class C, class K, class V>
void done_put(C& c, K k, const V& v) {
  if constexpr (requires { c.emplace_back(k, v); }) c.emplace_back(k, v);
  else c.insert_or_assign(k, v);
}

struct Case {
  Session& S;
  std::unique_ptr<Torrent> T;
  std::vector<FileDesc> files;
  std::vector<std::string> paths;   // absolute path of each file
  std::string base, root;
  torrent::Download dl;
  bool storerr = false;
  std::map<uint32_t, std::pair<torrent::HashChunk*, torrent::HashString>> stash;

  explicit Case(Session& s) : S(s) {}

  torrent::DownloadWrapper* w() { return dl.ptr(); }
  torrent::HashQueue* hq() { return w()->hash_queue(); }
  torrent::HashTorrent* ht() { return w()->hash_checker(); }

  std::vector<torrent::HashChunk*> queued() {   // this download's HashQueue nodes, oldest first
    std::vector<torrent::HashChunk*> v;
    auto* q = hq();
    for (auto it = q->begin(); it != q->end(); ++it)
      if (it->id() == w()->data()) v.push_back(it->get_chunk());
    return v;
  }

  // take everything the disk thread finished into the stash; with wait: until all queued are there
  void collect(bool wait) {
    auto t0 = std::chrono::steady_clock::now();
    while (true) {
      auto qs = queued();
      {
        std::scoped_lock l(g_inbox_lock);
        for (auto& e : g_inbox) stash[e.first->handle().index()] = e;
        g_inbox.clear();
      }
      {
        std::scoped_lock l(hq()->m_done_chunks_lock);
        for (auto it = hq()->m_done_chunks.begin(); it != hq()->m_done_chunks.end();) {
          stash[it->first->handle().index()] = std::make_pair(it->first, it->second);
          it = hq()->m_done_chunks.erase(it);
        }
      }
      if (!wait || stash.size() >= qs.size()) return;
      if (std::chrono::steady_clock::now() - t0 > std::chrono::seconds(20))
        throw std::runtime_error("disk thread did not finish the queued chunks");
      std::this_thread::sleep_for(std::chrono::microseconds(100));
    }
  }
  void put_back(uint32_t piece) {
    auto it = stash.find(piece);
    if (it == stash.end()) return;
    std::scoped_lock l(hq()->m_done_chunks_lock);
    done_put(hq()->m_done_chunks, it->second.first, it->second.second);
    stash.erase(it);
  }
  void put_back_all() {
    std::scoped_lock l(hq()->m_done_chunks_lock);
    for (auto& e : stash) done_put(hq()->m_done_chunks, e.second.first, e.second.second);
    stash.clear();
  }

  std::string snapshot() {
    std::ostringstream o;
    auto* fl = dl.file_list();
    uint32_t n = fl->size_chunks();
    bool open = dl.info()->is_open();
    o << "o" << open << " k" << dl.is_hash_checking() << " c" << dl.is_hash_checked() << " p" << ht()->position()
      << " u" << (int)ht()->outstanding() << " b";
    const torrent::Bitfield* bf = fl->bitfield();
    if (bf->empty()) o << "-";
    else for (uint32_t i = 0; i < bf->size_bits(); i++) o << (bf->get(i) ? '1' : '0');
    o << " r";
    for (uint32_t i = 0; i < n; i++) o << (ht()->hashing_ranges().has(i) ? '1' : '0');
    o << " d" << ht()->delay_checked().is_scheduled() << " e" << (ht()->error_number() != 0) << " s" << storerr;
    long refs = 0, blk = 0, mp = 0;
    auto* cl = w()->main()->chunk_list();
    for (auto it = cl->begin(); it != cl->end(); ++it) {
      refs += it->references(); blk += it->blocking(); mp += it->is_valid() ? 1 : 0;
    }
    o << " rf" << refs << " bl" << blk << " mp" << mp << " hq" << queued().size();
    int fo = 0;
    for (auto& f : *fl) if (!f->is_padding() && f->is_open()) fo++;
    o << " fo" << fo;
    // ChunkManager accounting: one block of chunk_size bytes per mapped node (only one torrent exists at a time)
    o << " mb" << torrent::runtime::memory_manager()->memory_block_count()
      << " mu" << torrent::runtime::memory_manager()->memory_usage();
    o << " t" << ht()->delay_retry().is_scheduled();
    // queued piece indices in queue order; per chunk-list node references:blocking:mapped ('.' = free)
    o << " q";
    {
      auto qs = queued();
      if (qs.empty()) o << "-";
      for (size_t i = 0; i < qs.size(); i++) o << (i ? "," : "") << qs[i]->handle().index();
    }
    o << " nd";
    if (cl->begin() == cl->end()) o << "-";
    for (auto it = cl->begin(); it != cl->end(); ++it) {
      if (it->references() == 0 && it->blocking() == 0 && !it->is_valid()) o << ".";
      else o << "[" << it->references() << ":" << it->blocking() << ":" << (it->is_valid() ? 1 : 0) << "]";
    }
    return o.str();
  }

  // canonical token of one file as it is on disk now; long=true adds sha1 + mtime (oracle side)
  std::string disk_token(size_t k, bool lng) {
    if (files[k].pad) return "P";
    struct stat st;
    std::string dir = fs::path(paths[k]).parent_path().string();
    struct stat ds;
    if (lstat(dir.c_str(), &ds) != 0) return "N";
    if (!S_ISDIR(ds.st_mode)) return "U";
    if (lstat(paths[k].c_str(), &st) != 0) return "A";
    if (!S_ISREG(st.st_mode)) return "U";
    std::string c;
    if (!read_file(paths[k], c)) return "U";
    char buf[64];
    snprintf(buf, sizeof buf, "B%zu:%08x", c.size(), fnv(c));
    std::string t = buf;
    if (lng) t += ":" + sha1_hex(c) + ":" + std::to_string((long long)st.st_mtim.tv_sec) + "." + std::to_string(st.st_mtim.tv_nsec);
    return t;
  }
  std::string disk_tokens(bool lng) {
    std::string s;
    for (size_t k = 0; k < files.size(); k++) { if (k) s += " "; s += disk_token(k, lng); }
    return s;
  }
  // entries under base that the case did not put there (files created outside the described paths)
  size_t tree_entries() {
    size_t n = 0;
    std::error_code ec;
    for (auto it = fs::recursive_directory_iterator(base, fs::directory_options::none, ec);
         !ec && it != fs::recursive_directory_iterator(); it.increment(ec)) n++;
    return n;
  }
};

std::string run_case(Session& S, const std::string& line, uint32_t serial) {
  std::vector<std::string> sec;
  {
    size_t p = 0;
    while (true) {
      size_t q = line.find('|', p);
      sec.push_back(line.substr(p, q == std::string::npos ? std::string::npos : q - p));
      if (q == std::string::npos) break;
      p = q + 1;
    }
  }
  if (sec.size() != 3) return "BADCASE";
  set_free_run(false);
  auto lay = split_ws(sec[0]), pert = split_ws(sec[1]), ops = split_ws(sec[2]);
  if (lay.size() < 3) return "BADCASE";
  Case C(S);
  TorrentSpec spec;
  spec.name = "t";
  spec.piece_length = (uint32_t)std::stoul(lay[0]);
  spec.content_seed = (uint32_t)std::stoul(lay[1]);
  for (size_t i = 2; i < lay.size(); i++) {
    size_t c = lay[i].find(':');
    FileDesc d{std::stoull(lay[i].substr(0, c)), lay[i].substr(c + 1) == "p"};
    C.files.push_back(d);
    FileSpec f;
    f.path = "d" + std::to_string(i - 2) + "/f";
    f.length = d.len;
    f.padding = d.pad;
    spec.files.push_back(f);
  }
  C.T = Session::make_metainfo(spec);
  Torrent& T = *C.T;
  uint32_t np = T.piece_count();

  // ---- Z<k>:<n>: the torrent DESCRIBES file k as ending in n zero bytes (content and piece hashes follow)
  std::string info = T.info_bytes;
  {
    bool any = false;
    for (auto& t : pert) {
      if (t[0] != 'Z') continue;
      size_t c = t.find(':');
      size_t k = std::stoul(t.substr(1, c - 1));
      uint64_t nz = std::stoull(t.substr(c + 1));
      uint64_t off = 0;
      for (size_t j = 0; j < k && j < C.files.size(); j++) off += C.files[j].len;
      if (k >= C.files.size() || C.files[k].pad) continue;
      nz = std::min<uint64_t>(nz, C.files[k].len);
      for (uint64_t g = off + C.files[k].len - nz; g < off + C.files[k].len; g++) T.content[g] = 0;
      any = true;
    }
    if (any) {
      std::string key = "6:pieces" + std::to_string((size_t)np * 20) + ":";
      size_t pos = info.find(key);
      if (pos == std::string::npos) return "BADCASE pieces";
      for (uint32_t i = 0; i < np; i++) {
        unsigned char md[20];
        uint64_t a = (uint64_t)i * spec.piece_length, b = std::min<uint64_t>(a + spec.piece_length, T.content.size());
        SHA1((const unsigned char*)T.content.data() + a, b - a, md);
        info.replace(pos + key.size() + (size_t)i * 20, 20, (const char*)md, 20);
      }
    }
  }
  // ---- perturbations
  std::string disk = T.content;
  std::vector<int> kind(C.files.size(), 0);   // 0 normal 1 M 2 N 3 Ul 4 Ud 5 Un
  std::vector<int64_t> trunc(C.files.size(), -1), ext(C.files.size(), 0);
  for (auto& t : pert) {
    char k = t[0];
    std::string a = t.substr(1), b;
    size_t c = a.find(':');
    if (c != std::string::npos) { b = a.substr(c + 1); a = a.substr(0, c); }
    uint64_t x = std::stoull(a);
    switch (k) {
      case 'F': if (x < disk.size()) disk[x] = char(disk[x] ^ 0x5a); break;
      case 'B': if (x < np) {
          // flip one byte of piece x's hash inside the bencoded info dictionary
          std::string key = "6:pieces" + std::to_string((size_t)np * 20) + ":";
          size_t pos = info.find(key);
          if (pos == std::string::npos) return "BADCASE pieces";
          info[pos + key.size() + x * 20 + (b.empty() ? 7 : std::stoul(b) % 20)] ^= 0x11;
        } break;
      case 'M': kind[x] = 1; break;
      case 'N': kind[x] = 2; break;
      case 'U': kind[x] = b == "l" ? 3 : b == "d" ? 4 : 5; break;
      case 'T': trunc[x] = std::stoll(b); break;
      case 'E': ext[x] = std::stoll(b); break;
      case 'Z': break;
      default: return "BADCASE pert";
    }
  }

  // ---- files on disk
  C.base = S.scratch() + "/c" + std::to_string(serial);
  C.root = C.base + "/t";
  fs::create_directories(C.root);
  uint64_t g = 0;
  for (size_t k = 0; k < C.files.size(); k++) {
    std::string dir = C.root + "/d" + std::to_string(k);
    std::string path = dir + "/f";
    C.paths.push_back(path);
    uint64_t len = C.files[k].len;
    if (!C.files[k].pad) {
      if (kind[k] == 2) {
        // no directory
      } else if (kind[k] == 5) {
        std::ofstream(dir) << "x";           // a regular file where the directory should be: ENOTDIR
      } else {
        fs::create_directories(dir);
        if (kind[k] == 1) {
        } else if (kind[k] == 3) {
          if (symlink("f", path.c_str()) != 0) return "BADCASE symlink";   // f -> f: ELOOP
        } else if (kind[k] == 4) {
          fs::create_directories(path);      // a directory in place of the file
        } else {
          std::string c = disk.substr(g, len);
          if (trunc[k] >= 0 && (uint64_t)trunc[k] < c.size()) c.resize(trunc[k]);
          if (ext[k] > 0) c.append((size_t)ext[k], char(0xa5));
          std::ofstream f(path, std::ios::binary | std::ios::trunc);
          f.write(c.data(), (std::streamsize)c.size());
          f.close();
          if (!f) return "BADCASE write";
        }
      }
    }
    g += len;
  }
  // reference verdict by OpenSSL over what is on disk now, against the hashes handed to the library
  std::string ssl(np, '0');
  {
    std::string key = "6:pieces" + std::to_string((size_t)np * 20) + ":";
    size_t pos = info.find(key) + key.size();
    std::vector<std::string> dc(C.files.size());
    std::vector<bool> have(C.files.size(), false);
    for (size_t k = 0; k < C.files.size(); k++) {
      if (C.files[k].pad) { dc[k].assign(C.files[k].len, '\0'); have[k] = true; continue; }
      struct stat st;
      if (lstat(C.paths[k].c_str(), &st) == 0 && S_ISREG(st.st_mode)) have[k] = read_file(C.paths[k], dc[k]);
    }
    uint64_t total = T.size();
    for (uint32_t i = 0; i < np; i++) {
      uint64_t a = (uint64_t)i * spec.piece_length, b = std::min<uint64_t>(a + spec.piece_length, total);
      std::string pb;
      bool ok = true;
      uint64_t off = 0;
      for (size_t k = 0; k < C.files.size() && ok; k++) {
        uint64_t fe = off + C.files[k].len;
        uint64_t lo = std::max(a, off), hi = std::min(b, fe);
        if (lo < hi) {
          if (!have[k] || hi - off > dc[k].size()) ok = false;
          else pb.append(dc[k], lo - off, hi - lo);
        }
        off = fe;
      }
      if (ok) {
        unsigned char md[20];
        SHA1((const unsigned char*)pb.data(), pb.size(), md);
        if (memcmp(md, info.data() + pos + (size_t)i * 20, 20) == 0) ssl[i] = '1';
      }
    }
  }
  std::string pre = C.disk_tokens(true);
  size_t entries_pre = C.tree_entries();

  // ---- the library
  std::string tfile = "d4:info" + info + "e";
  try {
    C.dl = S.add_raw(tfile);
  } catch (torrent::base_error& e) {
    return std::string("REJECT ") + e.what();
  }
  C.dl.file_list()->set_root_dir(C.root);
  Case* cp = &C;
  C.w()->data()->slot_initial_hash() = [cp]() { if (!cp->dl.info()->is_open()) cp->storerr = true; };   // receive_storage_error closed it

  std::string out;
  bool removed = false;
  for (auto& t : ops) {
    char o = t[0];
    if (removed) return "BADCASE op after z";
    switch (o) {
      case 'O': C.dl.open(0); break;
      case 'C': case 'Q':
        if (!C.dl.is_hash_checking() && C.dl.info()->is_open() && !C.dl.is_hash_checked())
          C.dl.hash_check(o == 'Q');
        break;
      case 'D': {
        uint32_t i = (uint32_t)std::stoul(t.substr(1));
        bool queued = false;
        for (auto* hc : C.queued()) if (hc->handle().index() == i) queued = true;
        if (!queued) break;
        C.collect(true);
        C.put_back(i);
        C.hq()->work();
        S.step();
        break;
      }
      case 'W':
        for (int guard = 0; guard < 100000; guard++) {
          auto qs = C.queued();
          if (qs.empty()) { S.step(); break; }
          C.collect(true);
          C.put_back(qs.front()->handle().index());
          C.hq()->work();
          S.step();
        }
        break;
      case 'w': {
        set_free_run(true);
        C.collect(false);
        C.put_back_all();
        C.hq()->work();   // what the callback posted by HashQueue::chunk_done does
        torrent::Download d = C.dl;
        Case* c2 = &C;
        // nothing outstanding in the main thread's queue and no timer pending
        if (!S.settle([d, c2]() mutable { return c2->queued().empty() && !c2->ht()->delay_checked().is_scheduled(); }, 30000))
          throw std::runtime_error("free-running check did not finish");
        set_free_run(false);
        break;
      }
      case 'K': C.collect(true); S.step(); break;
      case 'A': C.collect(true); S.advance_us(2000000); break;      // the clock passes every pending timer (the retry delay is a tuning constant: 2 s is far beyond it)
      case 'L': {                                                   // memory pressure: the manager grants k blocks in total / back to normal
        auto* mm = torrent::runtime::memory_manager();
        if (g_saved_limit == 0) g_saved_limit = mm->m_max_memory_usage.load();
        if (t.size() > 1 && t[1] == '-') mm->m_max_memory_usage = g_saved_limit;
        else mm->m_max_memory_usage = (uint64_t)std::stoull(t.substr(1)) * spec.piece_length;
        break;
      }
      case 'S': C.collect(true); C.put_back_all(); C.dl.hash_stop(); break;
      case 's': set_free_run(true); C.collect(false); C.put_back_all(); C.dl.hash_stop(); set_free_run(false); break;
      case 'X': C.collect(true); C.put_back_all(); C.dl.close(0); break;
      case 'x': set_free_run(true); C.collect(false); C.put_back_all(); C.dl.close(0); set_free_run(false); break;
      case 'z': set_free_run(true); C.collect(false); C.put_back_all(); C.dl.close(0); torrent::download_remove(C.dl); set_free_run(false); removed = true; break;   // close + remove at once, racing the disk thread
      default: return "BADCASE op";
    }
    if (!out.empty()) out += ";";
    out += removed ? std::string("removed") : C.snapshot();
  }
  out += " # " + C.disk_tokens(false) + " ierr=0";

  // ---- teardown and the oracle's extras
  if (g_saved_limit != 0) torrent::runtime::memory_manager()->m_max_memory_usage = g_saved_limit;
  std::string leak;
  if (!removed) {
    C.collect(true);
    C.put_back_all();
    C.dl.close(0);
    S.step();
    leak = C.snapshot();
    torrent::download_remove(C.dl);
  } else {
    std::ostringstream o;
    o << "o0 k0 c0 p0 u-1 b- r- d0 e0 s0 rf0 bl0 mp0 hq" << torrent::ThreadMain::thread_main()->hash_queue()->size() << " fo0 mb"
      << torrent::runtime::memory_manager()->memory_block_count() << " mu" << torrent::runtime::memory_manager()->memory_usage();
    leak = o.str();
  }
  S.step();
  std::string post = C.disk_tokens(true);
  size_t entries_post = C.tree_entries();
  out += " || ssl=" + ssl + " || pre=" + pre + " || post=" + post + " || entries=" + std::to_string(entries_pre) + ":" +
         std::to_string(entries_post) + " || atclose=" + leak;
  std::error_code ec;
  // symlink loops / odd entries: remove_all handles them (does not follow links)
  fs::remove_all(C.base, ec);
  return out;
}

}  // namespace

// ------------------------------------------------------------------------------------------
// G case:  G <seed> <variant 1|2>      a torrent larger than 4 GiB, 1 MiB pieces, almost nothing of it on disk
//   a (4 GiB described, only its first 4 MiB on disk) | b (2 MiB, valid) | c (2 MiB, MISSING); variant 2: a | c | b.
//   c's described content equals a's bytes at (c's offset mod 2^32), so a piece offset computed in 32 bits would find
//   "c" inside a.  Expected: exactly a's first four pieces and b's two pieces.  Only ~6 MiB are hashed.
// Output: G set=<indices reported present> || expect=<indices valid on disk> atclose=<leak snapshot>   (oracle only, no model)
static std::string run_giant(Session& S, const std::string& line, uint32_t serial) {
  auto tk = split_ws(line);
  if (tk.size() != 3) return "BADCASE";
  uint32_t seed = (uint32_t)std::stoul(tk[1]);
  int variant = std::stoi(tk[2]);
  const uint64_t MiB = 1 << 20, pl = MiB, alen = 4096 * MiB, ahead = 4 * MiB, blen = 2 * MiB, clen = 2 * MiB;
  std::string a(ahead, '\0'), b(blen, '\0');
  for (uint64_t g = 0; g < ahead; g++) a[g] = (char)content_byte(seed, g);
  for (uint64_t g = 0; g < blen; g++) b[g] = (char)content_byte(seed + 77, g);
  uint64_t c_off = variant == 1 ? alen + blen : alen;
  std::string c = a.substr((size_t)(c_off & 0xffffffffull), clen);
  struct F { std::string name; uint64_t len; };
  std::vector<F> files = variant == 1 ? std::vector<F>{{"a", alen}, {"b", blen}, {"c", clen}}
                                      : std::vector<F>{{"a", alen}, {"c", clen}, {"b", blen}};
  uint32_t np = (uint32_t)((alen + blen + clen) / pl);
  std::string pieces;
  pieces.reserve((size_t)np * 20);
  std::vector<uint32_t> expect;
  uint64_t off = 0;
  for (auto& f : files) {
    for (uint64_t p = 0; p < f.len / pl; p++) {
      unsigned char md[20];
      uint32_t idx = (uint32_t)((off + p * pl) / pl);
      const std::string* src = f.name == "a" ? (p < ahead / pl ? &a : nullptr) : f.name == "b" ? &b : &c;
      if (src != nullptr) SHA1((const unsigned char*)src->data() + p * pl, pl, md);
      else { std::string junk = "undescribed" + std::to_string(idx); SHA1((const unsigned char*)junk.data(), junk.size(), md); }
      pieces.append((const char*)md, 20);
      if ((f.name == "a" && p < ahead / pl) || f.name == "b") expect.push_back(idx);
    }
    off += f.len;
  }
  std::string info = "d5:filesl";
  for (auto& f : files) info += "d6:lengthi" + std::to_string(f.len) + "e4:pathl1:" + f.name + "ee";
  info += "e4:name1:t12:piece lengthi" + std::to_string(pl) + "e6:pieces" + std::to_string(pieces.size()) + ":" + pieces + "7:privatei1ee";
  std::string base = S.scratch() + "/g" + std::to_string(serial), root = base + "/t";
  fs::create_directories(root);
  std::ofstream(root + "/a", std::ios::binary).write(a.data(), (std::streamsize)a.size());
  std::ofstream(root + "/b", std::ios::binary).write(b.data(), (std::streamsize)b.size());
  torrent::Download d;
  try {
    d = S.add_raw("d4:info" + info + "e");
  } catch (torrent::base_error& e) {
    return std::string("REJECT ") + e.what();
  }
  d.file_list()->set_root_dir(root);
  d.open(0);
  set_free_run(true);      // no delivery control here: the real path
  d.hash_check(false);
  bool fin = S.settle([d]() { return d.is_hash_checked() || !d.info()->is_open(); }, 25000);
  set_free_run(false);
  if (!fin) return "HANG giant check did not finish";
  std::string set;
  const torrent::Bitfield* bf = d.file_list()->bitfield();
  if (!bf->empty())
    for (uint32_t i = 0; i < bf->size_bits(); i++) if (bf->get(i)) set += (set.empty() ? "" : ",") + std::to_string(i);
  std::string exp;
  for (uint32_t i : expect) exp += (exp.empty() ? "" : ",") + std::to_string(i);
  struct stat st;
  bool c_created = ::stat((root + "/c").c_str(), &st) == 0;
  uint64_t a_size = ::stat((root + "/a").c_str(), &st) == 0 ? (uint64_t)st.st_size : 0;
  d.close(0);
  S.step();
  std::ostringstream o;
  o << "G set=" << (set.empty() ? "-" : set) << " || expect=" << exp << " a_size=" << a_size << " c_exists=" << c_created
    << " mb=" << torrent::runtime::memory_manager()->memory_block_count() << " mu=" << torrent::runtime::memory_manager()->memory_usage();
  torrent::download_remove(d);
  S.step();
  std::error_code ec;
  fs::remove_all(base, ec);
  return o.str();
}

static int worker_main() {
  std_setup();
  std::unique_ptr<Session> S;
  std::string line;
  uint32_t serial = 0;
  while (std::getline(std::cin, line)) {
    try {
      if (!S) { S = std::make_unique<Session>(); install_interposer(); }
      if (line.rfind("G ", 0) == 0) std::cout << run_giant(*S, line, serial++) << "\n";
      else std::cout << run_case(*S, line, serial++) << "\n";
    } catch (torrent::internal_error& e) {
      std::cout << "ERR:internal || " << e.what() << "\n";
      std::cout.flush();
      _exit(0);   // the session is not usable after an internal_error; run_sharded restarts after this case (rc 0: the line above IS the result)
    } catch (std::exception& e) {
      std::cout << "ERR:other " << e.what() << "\n";
      std::cout.flush();
      _exit(0);
    }
  }
  S.reset();
  return 0;
}

// ------------------------------------------------------------------------------------------
// --probe: measure on the COMPILED code what the property leaves open and the model is parametric in
//   throttle_small      how many of 64 tiny pieces one hash_check hands to the disk thread at once
//   start_erases_delay  whether a new hash_check discards the notification timer of an earlier failed one
// printed as one JSON object; props/c09.py stores it for gen/params_c09.py
static torrent::Download probe_torrent(Session& S, const std::string& tag, uint32_t pl, const std::vector<uint64_t>& lens,
                                       int missing, int loop) {
  TorrentSpec spec;
  spec.name = "t";
  spec.piece_length = pl;
  for (size_t k = 0; k < lens.size(); k++) spec.files.push_back({"f" + std::to_string(k), lens[k]});
  auto T = Session::make_metainfo(spec);
  std::string root = S.scratch() + "/" + tag + "/t";
  fs::create_directories(root);
  uint64_t off = 0;
  for (size_t k = 0; k < lens.size(); k++) {
    std::string p = root + "/f" + std::to_string(k);
    if ((int)k == loop) { if (symlink(("f" + std::to_string(k)).c_str(), p.c_str()) != 0) throw std::runtime_error("symlink"); }
    else if ((int)k != missing) std::ofstream(p, std::ios::binary).write(T->content.data() + off, (std::streamsize)lens[k]);
    off += lens[k];
  }
  torrent::Download d = S.add_raw("d4:info" + T->info_bytes + "e");
  d.file_list()->set_root_dir(root);
  return d;
}

static int probe_main() {
  std_setup();
  Session S;
  // throttle
  torrent::Download d = probe_torrent(S, "p1", 1025, {64 * 1025}, -1, -1);
  d.open(0);
  d.hash_check(false);
  int queued_at_once = (int)d.ptr()->hash_checker()->outstanding();
  d.hash_stop();
  d.close(0);
  S.step();
  torrent::download_remove(d);
  S.step();
  // stale notification timer
  torrent::Download e = probe_torrent(S, "p2", 1100, {1100, 1100}, 0, 1);
  e.open(0);
  e.hash_check(false);   // piece 0 missing, piece 1 cannot be opened: aborted, notification scheduled
  bool scheduled_before = e.ptr()->hash_checker()->delay_checked().is_scheduled();
  e.hash_check(true);
  bool scheduled_after = e.ptr()->hash_checker()->delay_checked().is_scheduled();
  e.hash_stop();
  e.close(0);
  S.step();
  torrent::download_remove(e);
  S.step();
  std::cout << "{\"throttle_small\": " << queued_at_once << ", \"probe_pieces\": 64, \"start_erases_delay\": "
            << ((scheduled_before && !scheduled_after) ? 1 : 0) << "}\n";
  return 0;
}

int main(int argc, char** argv) {
  if (argc > 1 && std::strcmp(argv[1], "--probe") == 0) return probe_main();
  return ltv::supervise(argc, argv, worker_main);
}
