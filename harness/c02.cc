// C02 implementation driver: same case protocol as ocaml/c02_driver.ml, real FileList / File /
// Chunk / ChunkIterator / SocketFile on real files under /verif/build/scratch/<pid>/.
//
//   <cs> <layout> { ; <op> }*        layout ::= size[p],size[p],...
//   op ::= C <off> <len> <w> <pos> <datahex|-> <rpos> <rn>   FileList::create_chunk(off,len,false,prot)
//        | I <idx> <w> <pos> <datahex|-> <rpos> <rn>         FileList::create_chunk_index(idx,prot)
//          then (w only) Chunk::from_buffer(data,pos,|data|); to_buffer(rpos,rn); compare_buffer(data,pos,|data|);
//          sync; delete
//        | M <idx>            FileList::mark_completed
//        | V <idx> <off> <len> FileList::is_valid_piece(Piece(idx,off,len))
//        | Q                  size_chunks, chunk_index_size(i), File offset/size/range/completed, completed/left bytes
//        | D                  every file read back with plain open/read (NOT through libtorrent)
//        | R                  close; open (as Download::open); bitfield allocate + unset_all; update_completed
//                             (as Download::hash_check without resume data); open(false,0)
//        | S <idx>            Bitfield::set(idx) only      | U   FileList::update_completed
//        | P <file> <off> <len>   plain pread(2) of file <file> (sparse multi-GiB files are never dumped)
//   T <cs> <layout> ...      LOADER-driven: layout entries are size[p]@dir/dir/name in TORRENT order; the bencoded
//                             metainfo Object goes through torrent::download_add (DownloadConstructor), the ops then
//                             run on the Download's FileList. One entry without @path = single-file torrent.
#include "config.h"
#include "common/util.h"
#include "common/supervise.h"

#include <fcntl.h>
#include <sys/stat.h>
#include <unistd.h>
#include <dirent.h>
#include <filesystem>

#include "manager.h"
#include "data/chunk.h"
#include "data/chunk_iterator.h"
#include "data/chunk_handle.h"
#include "data/chunk_list_node.h"
#include "data/hash_chunk.h"
#include "data/memory_chunk.h"
#include "torrent/exceptions.h"
#include "torrent/path.h"
#include "torrent/torrent.h"
#include "torrent/download.h"
#include "torrent/object.h"
#include "download/download_wrapper.h"
#include "download/download_main.h"
#include "torrent/data/file.h"
#include "torrent/data/file_list.h"
#include "torrent/data/file_manager.h"
#include "torrent/data/piece.h"

using namespace ltv;
using torrent::FileList;
using torrent::File;
using torrent::Chunk;
using torrent::MemoryChunk;

static std::string g_scratch;

// ---- generic access to library containers (ROBUSTNESS rule 2): no private container type is spelled here;
// elements may be unique_ptr<File>, shared_ptr<File>, File* or File
template <class T> static auto as_ptr_impl(T& x, int) -> decltype(&*x) { return &*x; }   // pointer-like element
template <class T> static T* as_ptr_impl(T& x, long) { return &x; }                      // element held by value
template <class T> static auto as_ptr(T&& x) { return as_ptr_impl(x, 0); }
template <class C> static auto nth_file(C& c, size_t i) {
  auto it = std::begin(c);
  std::advance(it, i);
  return as_ptr(*it);
}
template <class C> static size_t count_of(C& c) { return (size_t)std::distance(std::begin(c), std::end(c)); }

static void rm_rf(const std::string& dir) {
  std::error_code ec;
  std::filesystem::remove_all(dir, ec);
}

static std::string commas(const std::vector<std::string>& v) {
  if (v.empty()) return "-";
  std::string s;
  for (size_t i = 0; i < v.size(); i++) { if (i) s += ','; s += v[i]; }
  return s;
}

struct Case {
  std::unique_ptr<FileList> own;   // direct mode
  torrent::Download dl;            // loader mode
  bool loader = false;
  FileList* fl = nullptr;
  std::string root;
  std::vector<bool> pad;
};

// what Download::open + Download::hash_check (no resume data) + DownloadMain::start do to the FileList
static void open_sequence(Case& c) {
  if (c.loader) {
    c.dl.open(0);                  // DownloadMain::open -> FileList::open(true, open_no_create); sets the queue flags
  } else {
    c.fl->open(true, FileList::open_no_create);
    for (auto& f : *c.fl)
      f->set_flags(File::flag_create_queued | File::flag_resize_queued);
  }
  c.fl->mutable_data()->mutable_completed_bitfield()->allocate();
  c.fl->mutable_data()->mutable_completed_bitfield()->unset_all();
}

static std::string op_chunk(Case& c, bool by_index, const std::vector<std::string>& t) {
  size_t k = 1;
  uint64_t off = 0; uint32_t len = 0, idx = 0;
  if (by_index) idx = (uint32_t)std::stoull(t.at(k++));
  else { off = std::stoull(t.at(k++)); len = (uint32_t)std::stoull(t.at(k++)); }
  bool w = t.at(k++) == "1";
  uint32_t pos = (uint32_t)std::stoull(t.at(k++));
  std::string data = unhex(t.at(k++));
  uint32_t rpos = (uint32_t)std::stoull(t.at(k++));
  uint32_t rn = (uint32_t)std::stoull(t.at(k++));
  int prot = MemoryChunk::prot_read | (w ? MemoryChunk::prot_write : 0);

  Chunk* raw;
  try {
    raw = by_index ? c.fl->create_chunk_index(idx, prot) : c.fl->create_chunk(off, len, false, prot);
  } catch (torrent::internal_error&) { return "ERR:internal"; }
  if (raw == nullptr) return "NULL";
  std::unique_ptr<Chunk> ch(raw);

  std::vector<std::string> ps;
  for (auto& p : *ch) {
    size_t fi = 0;
    for (auto itr = std::begin(*c.fl); itr != std::end(*c.fl) && as_ptr(*itr) != p.file(); ++itr) fi++;
    ps.push_back(std::to_string(p.position()) + ":" + std::to_string(p.size()) + ":" + std::to_string(fi) + ":" +
                 std::to_string(p.file_offset()) + ":" + (p.file() && p.file()->is_padding() ? "p" : "f") + ":" +
                 std::to_string(p.chunk().page_align()));
  }
  std::string out = "parts=" + commas(ps);

  out += " wr=";
  if (!w) out += "skip";
  else {
    try { out += ch->from_buffer(data.data(), pos, data.size()) ? "ok" : "false"; }
    catch (torrent::internal_error&) { out += "ERR:internal"; }
  }
  out += " rd=";
  try {
    // exact-size heap buffer: an over-long copy hits the ASan redzone
    std::unique_ptr<char[]> buf(new char[rn ? rn : 1]);
    memset(buf.get(), 0xEE, rn ? rn : 1);
    ch->to_buffer(buf.get(), rpos, rn);
    out += hex(buf.get(), rn);
  } catch (torrent::internal_error&) { out += "ERR:internal"; }
  out += " cmp=";
  try {
    exact_buf eb(data);
    out += ch->compare_buffer(eb.p, pos, data.size()) ? "1" : "0";
  } catch (torrent::internal_error&) { out += "ERR:internal"; }

  ch->sync(MemoryChunk::sync_sync);
  ch.reset();
  return out;
}

static std::string read_file(const std::string& path, bool& ok) {
  int fd = ::open(path.c_str(), O_RDONLY);
  ok = fd >= 0;
  std::string b;
  if (fd < 0) return b;
  char buf[65536];
  ssize_t n;
  while ((n = ::read(fd, buf, sizeof buf)) > 0) b.append(buf, n);
  ::close(fd);
  return b;
}

static std::string run_case(std::vector<std::string> t, unsigned serial) {
  Case c;
  if (t.at(0) == "T") { c.loader = true; t.erase(t.begin()); }
  uint32_t cs = (uint32_t)std::stoull(t.at(0));
  struct Ent { uint64_t size; bool pad; std::vector<std::string> path; };
  std::vector<Ent> ents;
  uint64_t total = 0;
  {
    std::istringstream ls(t.at(1));
    std::string e;
    int i = 0;
    while (std::getline(ls, e, ',')) {
      Ent en;
      auto at = e.find('@');
      std::string pth = at == std::string::npos ? "" : e.substr(at + 1);
      if (at != std::string::npos) e = e.substr(0, at);
      en.pad = !e.empty() && e.back() == 'p';
      if (en.pad) e.pop_back();
      en.size = std::stoull(e);
      if (pth.empty()) en.path.push_back("f" + std::to_string(i));
      else { std::istringstream ps(pth); std::string comp; while (std::getline(ps, comp, '/')) en.path.push_back(comp); }
      i++;
      total += en.size;
      c.pad.push_back(en.pad);
      ents.push_back(en);
    }
  }
  c.root = g_scratch + "/c" + std::to_string(serial);
  rm_rf(c.root);

  if (c.loader) {
    using torrent::Object;
    bool single = ents.size() == 1 && t.at(1).find('@') == std::string::npos;
    Object* o = new Object(Object::create_map());
    Object& info = o->insert_key("info", Object::create_map());
    info.insert_key("name", std::string("t") + std::to_string(getpid()) + "_" + std::to_string(serial));
    info.insert_key("piece length", (int64_t)cs);
    uint64_t np = (total + cs - 1) / cs;
    info.insert_key("pieces", std::string(20 * np, 'h'));
    if (single) {
      info.insert_key("length", (int64_t)total);
    } else {
      Object& files = info.insert_key("files", Object::create_list());
      for (auto& en : ents) {
        Object f = Object::create_map();
        f.insert_key("length", (int64_t)en.size);
        Object& pl = f.insert_key("path", Object::create_list());
        for (auto& comp : en.path) pl.as_list().push_back(Object(comp));
        if (en.pad) f.insert_key("attr", std::string("p"));
        files.as_list().push_back(f);
      }
    }
    try {
      c.dl = torrent::download_add(o, 0x5eed);
    } catch (torrent::input_error& e) { delete o; return std::string("REJECT input ") + e.what(); }
    c.fl = c.dl.file_list();
  } else {
    std::vector<FileList::split_type> sp;
    for (auto& en : ents) {
      torrent::Path p;
      for (auto& comp : en.path) p.push_back(comp);
      sp.emplace_back(en.size, p, en.pad ? File::flag_attr_padding : 0);
    }
    c.own = std::make_unique<FileList>();
    c.fl = c.own.get();
    // as DownloadConstructor::parse_multi_files
    c.fl->set_multi_file(true);
    c.fl->initialize(total, cs);
    c.fl->split(c.fl->begin(), &*sp.begin(), &*sp.begin() + sp.size());
    c.fl->update_paths(c.fl->begin(), c.fl->end());
  }

  std::string out;
  try {
    c.fl->set_root_dir(c.root);
    open_sequence(c);
    c.fl->open(false, 0);      // DownloadMain::start: creates directories and (empty) files
  } catch (torrent::internal_error& e) { out = std::string("ERR:internal! open ") + e.what();
  } catch (torrent::local_error& e) { out = std::string("ERR:local open ") + e.what(); }

  std::vector<std::string> op;
  auto file_path = [&](size_t i) { return nth_file(*c.fl, i)->frozen_path().str(); };
  auto flush_op = [&]() {
    if (op.empty()) return;
    std::string r;
    try {
      const std::string& k = op[0];
      if ((k == "Q" || k == "D") && total > (uint64_t(1) << 26)) r = "skipped-large";   // same rule as the model driver
      else if (k == "C") r = op_chunk(c, false, op);
      else if (k == "I") r = op_chunk(c, true, op);
      else if (k == "M") {
        try { c.fl->mark_completed((uint32_t)std::stoull(op.at(1))); r = "ok"; }
        catch (torrent::internal_error&) { r = "ERR:internal"; }
      } else if (k == "V") {
        torrent::Piece p((uint32_t)std::stoull(op.at(1)), (uint32_t)std::stoull(op.at(2)), (uint32_t)std::stoull(op.at(3)));
        r = c.fl->is_valid_piece(p) ? "1" : "0";
      } else if (k == "Q") {
        std::vector<std::string> sizes, files;
        for (uint32_t i = 0; i < c.fl->size_chunks(); i++) sizes.push_back(std::to_string(c.fl->chunk_index_size(i)));
        for (auto& f : *c.fl)
          files.push_back(std::to_string(f->offset()) + ":" + std::to_string(f->size_bytes()) + ":" + std::to_string(f->range_first()) +
                          ":" + std::to_string(f->range_second()) + ":" + std::to_string(f->completed_chunks()));
        r = "chunks=" + std::to_string(c.fl->size_chunks()) + " sizes=" + commas(sizes) + " files=" + commas(files) +
            " cc=" + std::to_string(c.fl->completed_chunks());
        r += " cb=";
        try { r += std::to_string(c.fl->completed_bytes()); } catch (torrent::internal_error&) { r += "ERR:internal"; }
        r += " left=";
        try { r += std::to_string(c.fl->left_bytes()); } catch (torrent::internal_error&) { r += "ERR:internal"; }
      } else if (k == "D") {
        std::vector<std::string> imgs;
        for (size_t i = 0; i < c.pad.size(); i++) {
          if (i >= c.fl->size_files()) { imgs.push_back("!nofile"); continue; }
          if (c.pad[i]) { imgs.push_back(nth_file(*c.fl, i)->is_padding() ? "P" : "P!notpadding"); continue; }
          bool ok;
          std::string b = read_file(file_path(i), ok);
          imgs.push_back(ok ? hex(b) : "!missing");
        }
        r = "dump=" + commas(imgs);
      } else if (k == "H") {
        uint32_t idx = (uint32_t)std::stoull(op.at(1));
        std::vector<uint32_t> steps;
        if (op.at(2) != "-") { std::istringstream ss(op.at(2)); std::string x; while (std::getline(ss, x, ',')) steps.push_back((uint32_t)std::stoull(x)); }
        Chunk* raw = nullptr;
        bool err = false;
        try { raw = c.fl->create_hashing_chunk_index(idx, MemoryChunk::prot_read); } catch (torrent::internal_error&) { err = true; }
        if (err) r = "ERR:internal";
        else if (raw == nullptr) r = "NULL";
        else {
          std::unique_ptr<Chunk> ch(raw);
          torrent::ChunkListNode node;
          node.set_index(idx);
          node.set_chunk(ch.get());
          {
            torrent::HashChunk hc(torrent::ChunkHandle(&node, false, false));
            bool ok = true;
            try {
              for (uint32_t l : steps) hc.perform(l, true);
              hc.perform(hc.remaining(), true);
            } catch (torrent::internal_error&) { ok = false; }
            if (ok) { char dg[20]; hc.hash_c(dg); r = "hash=" + hex(dg, 20) + " pos=" + std::to_string(ch->chunk_size() - hc.remaining()); }
            else r = "hash=ERR:internal pos=" + std::to_string(ch->chunk_size() - hc.remaining());
          }
          node.set_chunk(nullptr);
        }
      } else if (k == "X") {
        // X <idx> <w> <first> <last> <adv> <steps|-> <datahex|->: Chunk::preload, then the loop of
        // PeerConnectionBase::down_chunk (w=1) / up_chunk (w=0) with the REAL ChunkIterator; the "stream"
        // moves min(step_i, data.second) bytes per iteration, 0 when the schedule is exhausted
        uint32_t idx = (uint32_t)std::stoull(op.at(1));
        bool w = op.at(2) == "1";
        uint32_t first = (uint32_t)std::stoull(op.at(3)), last = (uint32_t)std::stoull(op.at(4));
        bool adv = op.at(5) == "1";
        std::vector<uint32_t> steps;
        if (op.at(6) != "-") { std::istringstream ss(op.at(6)); std::string x; while (std::getline(ss, x, ',')) steps.push_back((uint32_t)std::stoull(x)); }
        std::string src = unhex(op.at(7));
        int prot = MemoryChunk::prot_read | (w ? MemoryChunk::prot_write : 0);
        Chunk* raw = nullptr;
        bool err = false;
        try { raw = c.fl->create_chunk_index(idx, prot); } catch (torrent::internal_error&) { err = true; }
        if (err) r = "ERR:internal";
        else if (raw == nullptr) r = "NULL";
        else if (w && last > first && src.size() < (size_t)(last - first)) { delete raw; r = "BADCASE short data"; }
        else {
          std::unique_ptr<Chunk> ch(raw);
          r = "pre=";
          try { ch->preload(first, last - first, adv); r += "ok"; } catch (torrent::internal_error&) { r += "ERR:internal"; }
          std::vector<std::string> wins;
          std::string sent;
          uint32_t total = 0;
          bool xerr = false;
          try {
            Chunk::data_type data;
            torrent::ChunkIterator itr(ch.get(), first, last);
            size_t si = 0;
            do {
              data = itr.data();
              wins.push_back(std::to_string(data.second));
              uint32_t n = si < steps.size() ? std::min(steps[si], data.second) : 0;
              si++;
              if (w) memcpy(data.first, src.data() + total, n);
              else sent.append(static_cast<char*>(data.first), n);
              data.second = n;
              total += n;
            } while (data.second != 0 && itr.forward(data.second));
          } catch (torrent::internal_error&) { xerr = true; }
          if (xerr) r += " xfer=ERR:internal";
          else r += " wins=" + commas(wins) + " xfer=" + std::to_string(total) + " out=" + hex(sent);
          ch->sync(MemoryChunk::sync_sync);
        }
      } else if (k == "R") {
        try {
          if (c.loader) c.dl.close(0); else c.fl->close();
          open_sequence(c);
          c.fl->update_completed();
          c.fl->open(false, 0);
          r = "upd=ok";
        } catch (torrent::internal_error&) { r = "upd=ERR:internal"; }
      } else if (k == "U") {
        try { c.fl->update_completed(); r = "upd=ok"; }
        catch (torrent::internal_error&) { r = "upd=ERR:internal"; }
      } else if (k == "S") {
        uint64_t idx = std::stoull(op.at(1));
        if (idx < c.fl->size_chunks()) { c.fl->mutable_data()->mutable_completed_bitfield()->set((uint32_t)idx); r = "set=1"; }
        else r = "set=0";
      } else if (k == "P") {
        size_t i = std::stoull(op.at(1));
        uint64_t off = std::stoull(op.at(2)), len = std::stoull(op.at(3));
        if (i >= c.fl->size_files() || nth_file(*c.fl, i)->is_padding()) r = "pread=none";
        else {
          int fd = ::open(file_path(i).c_str(), O_RDONLY);
          if (fd < 0) r = "pread=!missing";
          else {
            struct stat sb;
            ::fstat(fd, &sb);
            std::string b(len, '\0');
            size_t got = 0;
            while (got < len) {
              ssize_t n = ::pread(fd, &b[got], len - got, off + got);
              if (n <= 0) break;
              got += n;
            }
            ::close(fd);
            b.resize(got);
            r = "pread=" + std::to_string((uint64_t)sb.st_size) + ":" + hex(b);
          }
        }
      } else r = "BADOP";
    } catch (torrent::internal_error& e) { r = std::string("ERR:internal!") + e.what();
    } catch (torrent::local_error& e) { r = std::string("ERR:local ") + e.what();
    } catch (std::exception& e) { r = std::string("ERR:other ") + e.what(); }
    if (!out.empty()) out += " | ";
    out += r;
    op.clear();
  };
  if (out.empty()) {
    for (size_t i = 2; i < t.size(); i++) {
      if (t[i] == ";") flush_op(); else op.push_back(t[i]);
    }
    flush_op();
  }

  try {
    if (c.loader) torrent::download_remove(c.dl);
    else { c.fl->close(); c.own.reset(); }
  } catch (std::exception& e) { out += std::string(" | CLEANUP-ERR ") + e.what(); }
  rm_rf(c.root);
  return out;
}

static void lib_setup() {
  std_setup();
  const char* base = getenv("LTV_SCRATCH");
  std::string b = base ? base : "/verif/build/scratch";
  ::mkdir(b.c_str(), 0777);
  g_scratch = b + "/" + std::to_string(getpid());
  ::mkdir(g_scratch.c_str(), 0777);

  torrent::initialize_main_thread();
  torrent::initialize();          // Manager + disk/net/tracker threads: download_add needs them
  torrent::manager->file_manager()->set_max_open_files(256);
}

// ---- constants the theorems' side conditions mention, PROBED from the compiled code (ROBUSTNESS rule 3)
static bool loader_accepts(int64_t piece_length, unsigned serial) {
  using torrent::Object;
  Object* o = new Object(Object::create_map());
  Object& info = o->insert_key("info", Object::create_map());
  info.insert_key("name", std::string("probe") + std::to_string(getpid()) + "_" + std::to_string(serial));
  info.insert_key("piece length", piece_length);
  info.insert_key("pieces", std::string(20, 'h'));
  info.insert_key("length", (int64_t)1);
  try {
    torrent::Download d = torrent::download_add(o, 0x5eed);
    torrent::download_remove(d);
    return true;
  } catch (torrent::input_error&) { delete o; return false; }
}

static bool left_bytes_ok(uint64_t total) {
  // unallocated bitfield, nothing completed: left_bytes() == size_bytes(), refused above the sanity bound
  FileList fl;
  fl.initialize(total, uint32_t(1) << 31);
  try { return fl.left_bytes() == total; } catch (torrent::internal_error&) { return false; }
}

static void print_params() {
  unsigned serial = 0;
  // accepted piece lengths: assume one interval around 2^20 (the loader's documented window); bisect both ends
  int64_t lo = 0, hi = int64_t(1) << 20;            // lo rejected (0), hi accepted
  bool mid_ok = loader_accepts(hi, serial++);
  int64_t pl_min_excl = -1, pl_max = -1;
  if (mid_ok && !loader_accepts(0, serial++)) {
    while (hi - lo > 1) { int64_t m = lo + (hi - lo) / 2; if (loader_accepts(m, serial++)) hi = m; else lo = m; }
    pl_min_excl = lo;
    int64_t a = int64_t(1) << 20, b = int64_t(1) << 40;   // a accepted, b rejected?
    if (!loader_accepts(b, serial++)) {
      while (b - a > 1) { int64_t m = a + (b - a) / 2; if (loader_accepts(m, serial++)) a = m; else b = m; }
      pl_max = a;
    }
  }
  int left_shift = -1;
  for (int sft = 40; sft <= 62; sft++)
    if (left_bytes_ok(uint64_t(1) << sft) && !left_bytes_ok((uint64_t(1) << sft) + 1)) left_shift = sft;
  if (left_shift < 0 && left_bytes_ok((uint64_t(1) << 62) + 1)) left_shift = 63;      // no bound below 2^62
  int pad_shift = -1;
  for (int i = 0; i < 31; i++) if (File::flag_attr_padding == (1 << i)) pad_shift = i;
  std::cout << "PARAMS left_shift=" << left_shift << " pl_min_excl=" << pl_min_excl << " pl_max=" << pl_max
            << " pad_shift=" << pad_shift << " page=" << MemoryChunk::page_size() << "\n";
}

static int worker_main() {
  lib_setup();
  std::string line;
  unsigned serial = 0;
  while (std::getline(std::cin, line)) {
    auto t = split_ws(line);
    try {
      if (t.size() == 1 && t[0] == "SELFTEST-HANG") for (volatile int spin = 0;; spin++) {}   // watchdog self-test
      if (t.size() < 2) std::cout << "BADCASE\n";
      else std::cout << run_case(t, serial++) << "\n";
    } catch (torrent::internal_error& e) { std::cout << "ERR:internal! " << e.what() << "\n";
    } catch (torrent::local_error& e) { std::cout << "ERR:local " << e.what() << "\n";
    } catch (std::exception& e) { std::cout << "ERR:other " << e.what() << "\n"; }
    std::cout.flush();
  }
  rm_rf(g_scratch);
  _exit(0);
}

// supervisor (common/supervise.h): one case at a time to a worker, 30 s wall watchdog per case
// (ROBUSTNESS rule 5): a hanging case is answered "HANG ..." and the run continues with a fresh worker
int main(int argc, char** argv) {
  if (argc > 1 && std::string(argv[1]) == "--params") {
    lib_setup();
    try { print_params(); } catch (std::exception& e) { std::cout << "PARAMS error " << e.what() << "\n"; }
    std::cout.flush();
    rm_rf(g_scratch);
    _exit(0);
  }
  return ltv::supervise(argc, argv, worker_main);
}
