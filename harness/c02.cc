// C02 implementation driver: same case protocol as ocaml/c02_driver.ml, real FileList / File /
// Chunk / ChunkIterator / SocketFile on real files under /verif/build/scratch/<pid>/.
//
//   <cs> <layout> { ; <op> }*        layout ::= size[p],size[p],...
//   op ::= C <off> <len> <w> <pos> <datahex|-> <rpos> <rn>   FileList::create_chunk(off,len,false,prot)
//        | I <idx> <w> <pos> <datahex|-> <rpos> <rn>         FileList::create_chunk_index(idx,prot)
//          then (w only) Chunk::from_buffer(data,pos,|data|); to_buffer(rpos,rn); compare_buffer(data,pos,|data|);
//          sync; delete
//        | M <idx>            FileList::mark_completed
//        | V <idx> <off> <len> FileList::is_valid_piece(Piece(idx,off,len))
//        | Q                  size_chunks, chunk_index_size(i), File offset/size/range/completed, completed/left bytes
//        | D                  every file read back with plain open/read (NOT through libtorrent)
#include "config.h"
#include "common/util.h"

#include <fcntl.h>
#include <sys/stat.h>
#include <unistd.h>
#include <dirent.h>

#include "manager.h"
#include "data/chunk.h"
#include "data/memory_chunk.h"
#include "torrent/exceptions.h"
#include "torrent/path.h"
#include "torrent/torrent.h"
#include "torrent/data/file.h"
#include "torrent/data/file_list.h"
#include "torrent/data/file_manager.h"
#include "torrent/data/piece.h"

using namespace ltv;
using torrent::FileList;
using torrent::File;
using torrent::Chunk;
using torrent::MemoryChunk;

static std::string g_scratch;

static void rm_rf(const std::string& dir) {
  DIR* d = opendir(dir.c_str());
  if (d) {
    while (dirent* e = readdir(d)) {
      std::string n = e->d_name;
      if (n == "." || n == "..") continue;
      ::unlink((dir + "/" + n).c_str());
    }
    closedir(d);
  }
  ::rmdir(dir.c_str());
}

static std::string commas(const std::vector<std::string>& v) {
  if (v.empty()) return "-";
  std::string s;
  for (size_t i = 0; i < v.size(); i++) { if (i) s += ','; s += v[i]; }
  return s;
}

struct Case {
  std::unique_ptr<FileList> fl;
  std::string root;
  std::vector<std::string> names;
  std::vector<bool> pad;
};

static std::string op_chunk(Case& c, bool by_index, const std::vector<std::string>& t) {
  size_t k = 1;
  uint64_t off = 0; uint32_t len = 0, idx = 0;
  if (by_index) idx = (uint32_t)std::stoull(t.at(k++));
  else { off = std::stoull(t.at(k++)); len = (uint32_t)std::stoull(t.at(k++)); }
  bool w = t.at(k++) == "1";
  uint32_t pos = (uint32_t)std::stoull(t.at(k++));
  std::string data = unhex(t.at(k++));
  uint32_t rpos = (uint32_t)std::stoull(t.at(k++));
  uint32_t rn = (uint32_t)std::stoull(t.at(k++));
  int prot = MemoryChunk::prot_read | (w ? MemoryChunk::prot_write : 0);

  Chunk* raw;
  try {
    raw = by_index ? c.fl->create_chunk_index(idx, prot) : c.fl->create_chunk(off, len, false, prot);
  } catch (torrent::internal_error&) { return "ERR:internal"; }
  if (raw == nullptr) return "NULL";
  std::unique_ptr<Chunk> ch(raw);

  std::vector<std::string> ps;
  for (auto& p : *ch) {
    size_t fi = 0;
    for (auto itr = c.fl->begin(); itr != c.fl->end() && itr->get() != p.file(); ++itr) fi++;
    ps.push_back(std::to_string(p.position()) + ":" + std::to_string(p.size()) + ":" + std::to_string(fi) + ":" +
                 std::to_string(p.file_offset()) + ":" + (p.file() && p.file()->is_padding() ? "p" : "f"));
  }
  std::string out = "parts=" + commas(ps);

  out += " wr=";
  if (!w) out += "skip";
  else {
    try { out += ch->from_buffer(data.data(), pos, data.size()) ? "ok" : "false"; }
    catch (torrent::internal_error&) { out += "ERR:internal"; }
  }
  out += " rd=";
  try {
    // exact-size heap buffer: an over-long copy hits the ASan redzone
    std::unique_ptr<char[]> buf(new char[rn ? rn : 1]);
    memset(buf.get(), 0xEE, rn ? rn : 1);
    ch->to_buffer(buf.get(), rpos, rn);
    out += hex(buf.get(), rn);
  } catch (torrent::internal_error&) { out += "ERR:internal"; }
  out += " cmp=";
  try {
    exact_buf eb(data);
    out += ch->compare_buffer(eb.p, pos, data.size()) ? "1" : "0";
  } catch (torrent::internal_error&) { out += "ERR:internal"; }

  ch->sync(MemoryChunk::sync_sync);
  ch.reset();
  return out;
}

static std::string run_case(const std::vector<std::string>& t, unsigned serial) {
  Case c;
  uint32_t cs = (uint32_t)std::stoull(t.at(0));
  std::vector<FileList::split_type> sp;
  uint64_t total = 0;
  {
    std::istringstream ls(t.at(1));
    std::string e;
    int i = 0;
    while (std::getline(ls, e, ',')) {
      bool pad = !e.empty() && e.back() == 'p';
      if (pad) e.pop_back();
      uint64_t sz = std::stoull(e);
      torrent::Path p;
      std::string name = "f" + std::to_string(i++);
      p.push_back(name);
      sp.emplace_back(sz, p, pad ? File::flag_attr_padding : 0);
      c.names.push_back(name);
      c.pad.push_back(pad);
      total += sz;
    }
  }
  c.root = g_scratch + "/c" + std::to_string(serial);
  rm_rf(c.root);

  c.fl = std::make_unique<FileList>();
  // as DownloadConstructor::parse_multi_files
  c.fl->set_multi_file(true);
  c.fl->initialize(total, cs);
  c.fl->split(c.fl->begin(), &*sp.begin(), &*sp.begin() + sp.size());
  c.fl->update_paths(c.fl->begin(), c.fl->end());
  c.fl->set_root_dir(c.root);
  // as DownloadWrapper / Download::open: allocated empty bitfield, files to be created and resized
  c.fl->mutable_data()->mutable_completed_bitfield()->allocate();
  c.fl->mutable_data()->mutable_completed_bitfield()->unset_all();
  // DownloadMain::open -> FileList::open(true, open_no_create); Download::open sets the queue flags;
  // DownloadMain::start -> FileList::open(false, 0) creates the (empty) files.
  c.fl->open(true, FileList::open_no_create);
  for (auto& f : *c.fl)
    f->set_flags(File::flag_create_queued | File::flag_resize_queued);
  c.fl->open(false, 0);

  std::string out;
  std::vector<std::string> op;
  auto flush_op = [&]() {
    if (op.empty()) return;
    std::string r;
    try {
      const std::string& k = op[0];
      if (k == "C") r = op_chunk(c, false, op);
      else if (k == "I") r = op_chunk(c, true, op);
      else if (k == "M") {
        try { c.fl->mark_completed((uint32_t)std::stoull(op.at(1))); r = "ok"; }
        catch (torrent::internal_error&) { r = "ERR:internal"; }
      } else if (k == "V") {
        torrent::Piece p((uint32_t)std::stoull(op.at(1)), (uint32_t)std::stoull(op.at(2)), (uint32_t)std::stoull(op.at(3)));
        r = c.fl->is_valid_piece(p) ? "1" : "0";
      } else if (k == "Q") {
        std::vector<std::string> sizes, files;
        for (uint32_t i = 0; i < c.fl->size_chunks(); i++) sizes.push_back(std::to_string(c.fl->chunk_index_size(i)));
        for (auto& f : *c.fl)
          files.push_back(std::to_string(f->offset()) + ":" + std::to_string(f->size_bytes()) + ":" + std::to_string(f->range_first()) +
                          ":" + std::to_string(f->range_second()) + ":" + std::to_string(f->completed_chunks()));
        r = "chunks=" + std::to_string(c.fl->size_chunks()) + " sizes=" + commas(sizes) + " files=" + commas(files) +
            " cc=" + std::to_string(c.fl->completed_chunks());
        r += " cb=";
        try { r += std::to_string(c.fl->completed_bytes()); } catch (torrent::internal_error&) { r += "ERR:internal"; }
        r += " left=";
        try { r += std::to_string(c.fl->left_bytes()); } catch (torrent::internal_error&) { r += "ERR:internal"; }
      } else if (k == "D") {
        std::vector<std::string> imgs;
        for (size_t i = 0; i < c.names.size(); i++) {
          std::string path = c.root + "/" + c.names[i];
          int fd = ::open(path.c_str(), O_RDONLY);
          if (c.pad[i]) { imgs.push_back(fd < 0 ? "P" : "P!exists"); if (fd >= 0) ::close(fd); continue; }
          if (fd < 0) { imgs.push_back("!missing"); continue; }
          std::string b;
          char buf[65536];
          ssize_t n;
          while ((n = ::read(fd, buf, sizeof buf)) > 0) b.append(buf, n);
          ::close(fd);
          imgs.push_back(hex(b));
        }
        r = "dump=" + commas(imgs);
      } else r = "BADOP";
    } catch (torrent::internal_error& e) { r = std::string("ERR:internal!") + e.what();
    } catch (torrent::local_error& e) { r = std::string("ERR:local ") + e.what();
    } catch (std::exception& e) { r = std::string("ERR:other ") + e.what(); }
    if (!out.empty()) out += " | ";
    out += r;
    op.clear();
  };
  for (size_t i = 2; i < t.size(); i++) {
    if (t[i] == ";") flush_op(); else op.push_back(t[i]);
  }
  flush_op();

  c.fl->close();
  c.fl.reset();
  rm_rf(c.root);
  return out;
}

int main() {
  std_setup();
  const char* base = getenv("LTV_SCRATCH");
  std::string b = base ? base : "/verif/build/scratch";
  ::mkdir(b.c_str(), 0777);
  g_scratch = b + "/" + std::to_string(getpid());
  ::mkdir(g_scratch.c_str(), 0777);

  torrent::initialize_main_thread();
  torrent::manager = new torrent::Manager;
  torrent::manager->file_manager()->set_max_open_files(256);

  std::string line;
  unsigned serial = 0;
  while (std::getline(std::cin, line)) {
    auto t = split_ws(line);
    try {
      if (t.size() < 2) std::cout << "BADCASE\n";
      else std::cout << run_case(t, serial++) << "\n";
    } catch (torrent::internal_error& e) { std::cout << "ERR:internal! " << e.what() << "\n";
    } catch (torrent::local_error& e) { std::cout << "ERR:local " << e.what() << "\n";
    } catch (std::exception& e) { std::cout << "ERR:other " << e.what() << "\n"; }
  }
  std::cout.flush();
  rm_rf(g_scratch);
  _exit(0);
}
