(* C02 model driver. Case line (space separated tokens):
     <cs> <layout> { ; <op> }*
   layout ::= size[p],size[p],...          ('p' = padding attr)
   op ::= C <off> <len> <w:0|1> <pos> <datahex|-> <rpos> <rn>     create_chunk(off,len) ...
        | I <idx> <w> <pos> <datahex|-> <rpos> <rn>               create_chunk_index(idx) ...
        | M <idx> | V <idx> <off> <len> | Q | D | R | U | S <idx> | P <file> <off> <len>
        | X <idx> <w> <first> <last> <adv> <s1,s2,..|-> <datahex|->   Chunk::preload + the down_chunk (w=1) /
                                   up_chunk (w=0) ChunkIterator loop over [first,last) with short transfers s_i
        | H <idx> <l1,l2,..|->     HashChunk over piece idx: perform(l) per step, then perform(remaining);
                                   prints the bytes fed to SHA-1 (hashin=..); the glue hashes them
   A leading token T marks a loader-driven case (entries size[p]@path); the model ignores paths.
   One output line per case: the op outputs joined by " | ". *)
let parse_layout s =
  List.map (fun t ->
    (* loader-driven cases carry "@path" per entry: the model's layout is the torrent-order list *)
    let t = match String.index_opt t '@' with Some i -> String.sub t 0 i | None -> t in
    let n = String.length t in
    if n > 0 && t.[n - 1] = 'p' then (n_of_string (String.sub t 0 (n - 1)), true)
    else (n_of_string t, false)) (String.split_on_char ',' s)

let rec split_ops toks cur acc = match toks with
  | [] -> List.rev (if cur = [] then acc else List.rev cur :: acc)
  | ";" :: r -> split_ops r [] (if cur = [] then acc else List.rev cur :: acc)
  | t :: r -> split_ops r (t :: cur) acc

let b01 s = (s = "1")
let parse_op = function
  | ["C"; off; len; w; pos; d; rpos; rn] ->
      OpChunk (n_of_string off, n_of_string len, b01 w, n_of_string pos, bytes_of_hex d, n_of_string rpos, n_of_string rn)
  | ["I"; idx; w; pos; d; rpos; rn] ->
      OpPiece (n_of_string idx, b01 w, n_of_string pos, bytes_of_hex d, n_of_string rpos, n_of_string rn)
  | ["M"; idx] -> OpMark (n_of_string idx)
  | ["V"; idx; off; len] -> OpValid (n_of_string idx, n_of_string off, n_of_string len)
  | ["Q"] -> OpQuery
  | ["D"] -> OpDump
  | ["H"; idx; steps] ->
      OpHash (n_of_string idx, if steps = "-" then [] else List.map n_of_string (String.split_on_char ',' steps))
  | ["X"; idx; w; first; last; _adv; steps; d] ->
      OpXfer (n_of_string idx, b01 w, n_of_string first, n_of_string last,
              (if steps = "-" then [] else List.map n_of_string (String.split_on_char ',' steps)), bytes_of_hex d)
  | ["R"] -> OpReopen
  | ["U"] -> OpUpdate
  | ["S"; idx] -> OpSetBit (n_of_string idx)
  | ["P"; i; off; len] -> OpPread (nat_of_int (int_of_string i), n_of_string off, n_of_string len)
  | _ -> failwith "op"

let sn = string_of_n
let optn = function Some x -> sn x | None -> "ERR:internal"
(* page size of the machine the implementation runs on (MemoryChunk::page_size()), given by the glue *)
let page = n_of_string (try Sys.getenv "LTV_PAGE" with Not_found -> "4096")
let show_part p =
  Printf.sprintf "%s:%s:%d:%s:%s:%s" (sn p.p_pos) (sn p.p_size) (int_of_nat p.p_file) (sn p.p_foff) (if p.p_pad then "p" else "f")
    (sn (part_align page p))
let commas f l = if l = [] then "-" else String.concat "," (List.map f l)
let show_out = function
  | OutErr -> "ERR:internal"
  | OutNull -> "NULL"
  | OutChunk (ps, wr, rd, cmp) ->
      Printf.sprintf "parts=%s wr=%s rd=%s cmp=%s" (commas show_part ps)
        (match wr with WSkip -> "skip" | WErr -> "ERR:internal" | WOk -> "ok")
        (match rd with None -> "ERR:internal" | Some b -> hex_of_bytes b)
        (match cmp with None -> "ERR:internal" | Some true -> "1" | Some false -> "0")
  | OutMark ok -> if ok then "ok" else "ERR:internal"
  | OutValid b -> if b then "1" else "0"
  | OutQuery (nc, sizes, files, cc, cb, left) ->
      Printf.sprintf "chunks=%s sizes=%s files=%s cc=%s cb=%s left=%s" (sn nc) (commas sn sizes)
        (commas (fun (f, k) -> Printf.sprintf "%s:%s:%s:%s:%s" (sn f.f_off) (sn f.f_size) (sn f.f_r1) (sn f.f_r2) (sn k)) files)
        (sn cc) (optn cb) (optn left)
  | OutDump imgs -> "dump=" ^ commas (function None -> "P" | Some b -> hex_of_bytes b) imgs
  | OutHash (Some b, pos) -> "hashin=" ^ hex_of_bytes b ^ " pos=" ^ sn pos
  | OutHash (None, pos) -> "hash=ERR:internal pos=" ^ sn pos
  | OutXfer (pre, None) -> (if pre then "pre=ok" else "pre=ERR:internal") ^ " xfer=ERR:internal"
  | OutXfer (pre, Some ((wins, total), sent)) ->
      Printf.sprintf "pre=%s wins=%s xfer=%s out=%s" (if pre then "ok" else "ERR:internal") (commas sn wins) (sn total) (hex_of_bytes sent)
  | OutUpd ok -> if ok then "upd=ok" else "upd=ERR:internal"
  | OutSet ok -> if ok then "set=1" else "set=0"
  | OutPread (None, _) -> "pread=none"
  | OutPread (Some sz, b) -> "pread=" ^ sn sz ^ ":" ^ hex_of_bytes b

(* --probed-ok <left_shift> <pl_min_excl> <pl_max>: evaluate the theorems' side condition (extracted
   probed_ok) on the constants the harness probed from the compiled implementation *)
let () =
  if Array.length Sys.argv >= 5 && Sys.argv.(1) = "--probed-ok" then begin
    let p = { pr_left_shift = n_of_string Sys.argv.(2); pr_pl_min_excl = n_of_string Sys.argv.(3);
              pr_pl_max = n_of_string Sys.argv.(4) } in
    print_endline (if probed_ok p then "probed_ok=1" else "probed_ok=0"); exit 0 end

let () = each_line (fun line ->
  match (match split_ws line with "T" :: r -> r | r -> r) with
  | cs :: lay :: rest ->
      let ops = List.map parse_op (split_ops rest [] []) in
      let layout = parse_layout lay in
      (* whole-file dumps / per-piece listings are refused on both sides for layouts above 64 MiB
         (sparse multi-GiB cases are compared through P windows) *)
      let total = List.fold_left (fun a (sz, _) -> BZ.add a (zt_of_n sz)) BZ.zero layout in
      let large = BZ.gt total (BZ.of_int (1 lsl 26)) in
      let heavy = function OpQuery | OpDump -> true | _ -> false in
      let outs = run_case (n_of_string cs) layout (if large then List.filter (fun o -> not (heavy o)) ops else ops) in
      let rec weave ops outs = match ops, outs with
        | o :: r, _ when large && heavy o -> "skipped-large" :: weave r outs
        | _ :: r, x :: xs -> show_out x :: weave r xs
        | _, _ -> [] in
      String.concat " | " (weave ops outs)
  | _ -> "BADCASE")
