(* C07 static-map model driver. Cases (one per line):
     T <tspec>                       print the key table
     R <tspec> <hex>                 static_map_read_bencode_c on a fresh map
     W <tspec> <k> (<idx> <sval>)*k  fill a fresh map, static_map_write_bencode_c, then read the
                                     output back into a fresh map
     RI <tspec> <k> (<idx> <sval>)*k <hex>   fill a map with (stale) values, then
                                     static_map_read_bencode_c INTO it (destination independence)
   tspec ::= H | P | M | D          the real tables (ExtHandshake / ExtPEX / ExtMetadata / Dht)
           | t=<idx>.<hexkey>,...   an inline table ("t=" alone: the empty table)
   sval  ::= V <tree> | U <tree> (tree with flag_unordered set) | B <hex> | S <hex> | L <hex> | M <hex>
   tree  ::= I <dec> | S <hex|-> | L <n> tree*n | M <n> (<hex|-> tree)*n
   Output: entries as  " | <i>=<-|V o/u tree|B hex|S hex|L hex|M hex>"                          *)
let rec parse_tree toks = match toks with
  | "I" :: z :: r -> (VInt (z_of_string z), r)
  | "S" :: h :: r -> (VStr (bytes_of_hex h), r)
  | "L" :: n :: r ->
      let rec go k r acc = if k = 0 then (VList (List.rev acc), r)
        else let (v, r') = parse_tree r in go (k - 1) r' (v :: acc) in
      go (int_of_string n) r []
  | "M" :: n :: r ->
      let rec go k r acc = if k = 0 then (VMap (List.rev acc), r)
        else match r with
          | h :: r1 -> let (v, r') = parse_tree r1 in go (k - 1) r' ((bytes_of_hex h, v) :: acc)
          | [] -> failwith "tree" in
      go (int_of_string n) r []
  | _ -> failwith "tree"

let rec print_tree b v = match v with
  | VInt z -> Buffer.add_string b ("I " ^ string_of_z z)
  | VStr s -> Buffer.add_string b ("S " ^ hex_of_bytes s)
  | VList l -> Buffer.add_string b ("L " ^ string_of_int (List.length l));
      List.iter (fun x -> Buffer.add_char b ' '; print_tree b x) l
  | VMap m -> Buffer.add_string b ("M " ^ string_of_int (List.length m));
      List.iter (fun (k, x) -> Buffer.add_char b ' '; Buffer.add_string b (hex_of_bytes k); Buffer.add_char b ' '; print_tree b x) m

let parse_table (s : string) : (n * n list) list =
  match s with
  | "H" -> ext_handshake | "P" -> ext_pex | "M" -> ext_metadata | "D" -> dht
  | _ ->
    if String.length s < 2 || String.sub s 0 2 <> "t=" then failwith "tspec";
    let body = String.sub s 2 (String.length s - 2) in
    if body = "" then [] else
    List.map (fun item ->
      match String.split_on_char '.' item with
      | [i; h] -> (n_of_int (int_of_string i), bytes_of_hex h)
      | _ -> failwith "tspec") (String.split_on_char ',' body)

let show_table tbl =
  "TABLE " ^ string_of_int (List.length tbl) ^
  String.concat "" (List.map (fun (i, k) -> " " ^ string_of_n i ^ "." ^ hex_of_bytes k) tbl)

let show_sval o = match o with
  | None -> "-"
  | Some (SObj (v, fl)) -> let b = Buffer.create 32 in
      Buffer.add_string b (if fl then "V u " else "V o "); print_tree b v; Buffer.contents b
  | Some (SRaw (RawAny, s)) -> "B " ^ hex_of_bytes s
  | Some (SRaw (RawS, s)) -> "S " ^ hex_of_bytes s
  | Some (SRaw (RawL, s)) -> "L " ^ hex_of_bytes s
  | Some (SRaw (RawM, s)) -> "M " ^ hex_of_bytes s

let show_read total r = match r with
  | Ok (e, rest) ->
      let b = Buffer.create 64 in
      Buffer.add_string b (Printf.sprintf "OK %d" (total - List.length rest));
      List.iteri (fun i o -> Buffer.add_string b (Printf.sprintf " | %d=%s" i (show_sval o))) e;
      Buffer.contents b
  | Reject -> "REJECT" | Fault -> "FAULT" | OutOfFuel -> "OUTOFFUEL"

let rest_toks = ref []
let rec parse_svals k toks acc =
  if k = 0 then (rest_toks := toks; List.rev acc) else
  match toks with
  | i :: "V" :: r -> let (v, r') = parse_tree r in
      parse_svals (k - 1) r' ((int_of_string i, SObj (normalize v, false)) :: acc)
  | i :: "U" :: r -> let (v, r') = parse_tree r in
      parse_svals (k - 1) r' ((int_of_string i, SObj (normalize v, true)) :: acc)
  | i :: "B" :: h :: r -> parse_svals (k - 1) r ((int_of_string i, SRaw (RawAny, bytes_of_hex h)) :: acc)
  | i :: "S" :: h :: r -> parse_svals (k - 1) r ((int_of_string i, SRaw (RawS, bytes_of_hex h)) :: acc)
  | i :: "L" :: h :: r -> parse_svals (k - 1) r ((int_of_string i, SRaw (RawL, bytes_of_hex h)) :: acc)
  | i :: "M" :: h :: r -> parse_svals (k - 1) r ((int_of_string i, SRaw (RawM, bytes_of_hex h)) :: acc)
  | _ -> failwith "sval"

let () = each_line (fun line ->
  match split_ws line with
  | ["T"; t] -> show_table (parse_table t)
  | ["R"; t; h] ->
      let tbl = parse_table t in
      let l = bytes_of_hex h in
      show_read (List.length l) (sm_read tbl l)
  | "W" :: t :: k :: toks ->
      let tbl = parse_table t in
      let svs = parse_svals (int_of_string k) toks [] in
      let e = List.mapi (fun i _ -> (try Some (List.assoc i (List.rev svs)) with Not_found -> None)) tbl in
      (match sm_write tbl e with
       | WOk (_, out) -> "enc:" ^ hex_of_bytes out ^ " | " ^ show_read (List.length out) (sm_read tbl out)
       | WInternal -> "ERR:internal"
       | WFault -> "FAULT")
  | "RI" :: t :: k :: toks ->
      let tbl = parse_table t in
      let svs = parse_svals (int_of_string k) toks [] in
      let e = List.mapi (fun i _ -> (try Some (List.assoc i (List.rev svs)) with Not_found -> None)) tbl in
      (match !rest_toks with
       | [h] -> let l = bytes_of_hex h in show_read (List.length l) (sm_read_into tbl e l)
       | _ -> "BADCASE")
  | _ -> "BADCASE")
