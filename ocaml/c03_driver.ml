(* C03 model driver.  Case (one line):
     role=<leech|leechdone|seed|iseed|meta> np=<n> bits=<01..|-> pre=<0|1> cu=<0|1> xv=<01..|-> ho=<hex|-> stream=<hex|-> segs=<seg>/<seg>/...
       seg ::= k<cap>:<len>,<len>,...      (cap 0 = unlimited; the lens partition `stream`; an entry `w` =
                                            the library's write side becomes ready and writes all it has)
     xr=<01..> (optional): k-th completed extension message generates a reply (ut_metadata request)
     eof=1 (optional): the peer closes its end after the last segment (remote close: digest closed=1)
     ho = bytes handed over from the handshake (push_unread + one event_read on an empty socket)
   Output: one digest per segmentation joined by " / ", then " || " + the effect sequence of the
   whole-stream decode (not compared with the implementation). *)
let show_msg m = match m with
  | MKeepAlive -> "KA" | MChoke -> "CHOKE" | MUnchoke -> "UNCHOKE" | MInterested -> "INT" | MNotInterested -> "NOTINT"
  | MHave i -> "HAVE:" ^ string_of_n i
  | MRequest (i, o, l) -> Printf.sprintf "REQ:%s:%s:%s" (string_of_n i) (string_of_n o) (string_of_n l)
  | MCancel (i, o, l) -> Printf.sprintf "CAN:%s:%s:%s" (string_of_n i) (string_of_n o) (string_of_n l)
  | MPort p -> "PORT:" ^ string_of_n p
  | MPiece (i, o, l) -> Printf.sprintf "PIECE:%s:%s:%s" (string_of_n i) (string_of_n o) (string_of_n l)
  | MPieceDone -> "PIECEDONE"
  | MExt (t, l) -> Printf.sprintf "EXT:%s:%s" (string_of_n t) (string_of_n l)
  | MExtDone -> "EXTDONE"
  | MBitfield l -> "BITFIELD:" ^ string_of_n l
  | MBitsDone -> "BITSDONE"
let show_reason r = match r with
  | RLen -> "len" | RUnknownId -> "id" | RPieceRole -> "piece-role" | RPieceShort -> "piece-short"
  | RExtBad -> "ext" | RFull -> "full" | RHandler -> "handler" | REof -> "eof" | RPolicy -> "policy"
let show_eff e = match e with EMsg m -> show_msg m | EClose r -> "CLOSE:" ^ show_reason r | EFatal -> "FATAL"
let b01 b = if b then "1" else "0"
let show_digest h mode buf =
  match mode with
  | RClosed -> "closed=1"
  | _ ->
    let st = match mode with
      | RIdle -> "IDLE" | RPay (KPiece, l) -> "SKIP:" ^ string_of_n l | RPay (KExt, l) -> "EXT:" ^ string_of_n l
      | RPay (KBits, l) -> "SKIP:" ^ string_of_n l | RClosed -> "?" in
    let upq = if h.h_upq = [] then "-" else
      String.concat "," (List.map (fun ((i, o), l) -> Printf.sprintf "%s:%s:%s" (string_of_n i) (string_of_n o) (string_of_n l)) h.h_upq) in
    Printf.sprintf "closed=0 bits=%s q=%s u=%s upq=%s du=%s st=%s buf=%d"
      (String.concat "" (List.map b01 h.h_bits)) (b01 h.h_queued) (b01 h.h_unchoked) upq (b01 h.h_down_unchoked) st (List.length buf)
let bits_of s = if s = "-" then [] else List.init (String.length s) (fun i -> s.[i] = '1')
let rec split_at n l = if n = 0 then ([], l) else match l with [] -> ([], []) | x :: t -> let (a, b) = split_at (n - 1) t in (x :: a, b)
let () = each_line (fun line ->
  if String.length line >= 9 && String.sub line 0 9 = "mode=free" then "FREE" else
  let kv = Hashtbl.create 16 in
  List.iter (fun tok -> match String.index_opt tok '=' with
    | Some i -> Hashtbl.replace kv (String.sub tok 0 i) (String.sub tok (i + 1) (String.length tok - i - 1))
    | None -> ()) (split_ws line);
  let g k = try Hashtbl.find kv k with Not_found -> failwith ("missing " ^ k) in
  let (role, isdone) = match g "role" with
    | "leech" -> (Leech, false) | "leechdone" -> (Leech, true) | "seed" -> (Seed, true) | "iseed" -> (ISeed, true) | "meta" -> (Meta, false)
    | _ -> failwith "role" in
  let np = int_of_string (g "np") in
  let bits0 = if role = Meta then [true] else if g "bits" = "-" then List.init np (fun _ -> false) else bits_of (g "bits") in
  let pre = g "pre" = "1" in
  (* close policy probed on the implementation: pol=h:<len>:<id>=<0|1>,x:<ty>:<elen>=<0|1>,...  Every key the decoder
     consults is logged; a key that is not in the table counts as "continue" and is reported in unk= *)
  let ptab = Hashtbl.create 32 in
  let seen = Hashtbl.create 32 in
  (match (try Hashtbl.find kv "pol" with Not_found -> "-") with
   | "-" -> ()
   | t -> List.iter (fun e -> match String.index_opt e '=' with
                | Some i -> Hashtbl.replace ptab (String.sub e 0 i) (String.sub e (i + 1) (String.length e - i - 1) = "1")
                | None -> ()) (String.split_on_char ',' t));
  let look key = Hashtbl.replace seen key (); (try Hashtbl.find ptab key with Not_found -> false) in
  let pol = { p_hdr = (fun len id -> look ("h:" ^ string_of_n len ^ ":" ^ string_of_n id));
              p_ext = (fun ty elen -> look ("x:" ^ string_of_n ty ^ ":" ^ string_of_n elen)) } in
  let c = { c_role = role; c_npieces = n_of_int np; c_done = isdone; c_can_unchoke = (g "cu" = "1");
            c_ext_verdicts = bits_of (g "xv"); c_pol = pol;
            c_ext_reply = bits_of (try Hashtbl.find kv "xr" with Not_found -> "-") } in
  let h0 = hinit c bits0 pre pre false in
  let eof = (try Hashtbl.find kv "eof" with Not_found -> "0") = "1" in
  let ho = bytes_of_hex (g "ho") in
  let stream = bytes_of_hex (g "stream") in
  let one seg =
    let i = String.index seg ':' in
    let capv = int_of_string (String.sub seg 1 (i - 1)) in
    let lens = List.filter (fun x -> x <> "") (String.split_on_char ',' (String.sub seg (i + 1) (String.length seg - i - 1))) in
    let usesb = List.mem "w" lens || (try Hashtbl.find kv "xr" with Not_found -> "-") <> "-" in
    let budget = if capv = 0 then (fun _ -> nat_of_int 100000) else (let b = nat_of_int (capv - 1) in fun _ -> b) in
    if usesb && role <> Meta then begin
      (* the machine with the extension wait/resume pause; "w" = the write side becomes ready *)
      let rec cutb l ls = match ls with
        | [] -> []
        | "w" :: r -> BWrite :: cutb l r
        | n :: r -> let (a, b) = split_at (int_of_string n) l in BSeg a :: cutb b r in
      match run_b_real c budget (fun _ -> false) h0 ho (cutb stream lens) with
      | BRet (s, _, _, _, _) ->
          let s = if eof then fst (close_eof s) else s in
          show_digest s.m_h s.m_mode s.m_buf
      | BFault -> "FAULT" | BOut -> "OUTOFFUEL"
    end else
    let rec cut l ls = match ls with [] -> [] | n :: r -> let (a, b) = split_at (int_of_string n) l in a :: cut b r in
    let segs = cut stream (List.filter (fun x -> x <> "w") lens) in
    match run_real c budget (fun _ -> false) h0 ho segs with
    | MRet (s, _, _) ->
        let s = if eof then fst (close_eof s) else s in
        show_digest s.m_h s.m_mode s.m_buf
    | MFault -> "FAULT" | MOut -> "OUTOFFUEL" in
  let digs = List.map one (String.split_on_char '/' (g "segs")) in
  let (spec, effs) = match decode_real c h0 (ho @ stream) with
    | PRes (h, m, b, es) ->
        ((if eof then "closed=1" else show_digest h m b),
         String.concat " " (List.map show_eff es) ^ (if eof && m <> RClosed then " CLOSE:eof" else ""))
    | PFault -> ("FAULT", "FAULT") | POut -> ("OUTOFFUEL", "OUTOFFUEL") in
  let keys = List.sort compare (Hashtbl.fold (fun k () acc -> k :: acc) seen []) in
  let unk = List.filter (fun k -> not (Hashtbl.mem ptab k)) keys in
  String.concat " / " digs ^ " || spec: " ^ spec ^ " ;; " ^ effs ^ " ;; unk=" ^ (if unk = [] then "-" else String.concat "," unk))
