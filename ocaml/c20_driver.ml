(* C20 model driver. Case (see harness/c20.cc):
     pre=<hex> pad=<n> seed=<n> suf=<hex> minp=<n> priv=<0|1> | op op ...
   ops: c<i>  d<i>  t  b<i>:<item>/<item>/...   item = H<x..,m..,p..,s..> | M<extid>.<msgtype>.<piece>
   A second kind, "SLICE <hex|-> <piece>", prints send_metadata_piece and the repaired variant. *)
let content_byte seed g =
  let x = (g + 1000003 * seed) land 0xffffffff in
  let k = 2654435761 in
  let lo = (x land 0xffff) * k in
  let hi = (((x lsr 16) * k) land 0xffff) lsl 16 in
  let y = (lo + hi) land 0xffffffff in
  ((y lsr 24) lxor (x land 0xff)) land 0xff

let string_of_bytes (l : n list) : string =
  let b = Buffer.create 1024 in
  List.iter (fun x -> Buffer.add_char b (Char.chr (int_of_n x))) l;
  Buffer.contents b

let hex_of_string s =
  if s = "" then "-" else begin
    let b = Buffer.create 64 in
    String.iter (fun c -> Buffer.add_string b (Printf.sprintf "%02x" (Char.code c))) s;
    Buffer.contents b end

let entries_hex0 (l : (n * n) list) =
  let b = Buffer.create 32 in
  List.iter (fun (i, p) ->
    let p = int_of_n p in
    Buffer.add_string b (Printf.sprintf "7f0000%02x%02x%02x" (2 + int_of_n i) (p lsr 8) (p land 255))) l;
  if Buffer.length b = 0 then "-" else Buffer.contents b

let entries_hex_fwd = ref entries_hex0
let entries_hex l = !entries_hex_fwd l

let pay_str (l : n list) =
  if l = [] then "0:-" else
    let s = string_of_bytes l in
    Printf.sprintf "%d:%s" (String.length s) (Digest.to_hex (Digest.string s))

let show_meta i id r =
  match r with
  | MData (p, total, payload) ->
      Printf.sprintf "E%d(id=%d,msg_type=1,piece=%s,total_size=%s,pay=%s)" i id (string_of_n p) (string_of_n total) (pay_str payload)
  | MReject p ->
      let text = "d8:msg_typei2e5:piecei" ^ string_of_n p ^ "ee" in
      (match reject_build p with
       | BuildOk -> Printf.sprintf "E%d(id=%d,msg_type=2,piece=%s,pay=0:-)" i id (string_of_n p)
       | BuildTruncated ->
           let t = String.sub text 0 (String.length text - 1) ^ "\000" in
           Printf.sprintf "E%d(id=%d,BADBENCODE:%s)" i id (hex_of_string t)
       | BuildInternalError -> Printf.sprintf "E%d(INTERNAL)" i)

let peer_of = function
  | OHs (i, _, _) -> int_of_n i | OToggle (i, _) -> int_of_n i | OPex (i, _, _, _) -> int_of_n i
  | OMeta (i, _, _) -> int_of_n i | OClosed i -> int_of_n i

let show_out o = match o with
  | OHs (i, on, ms) ->
      Printf.sprintf "E%d(id=0,m::ut_metadata=2,m::ut_pex=%d,metadata_size=%s,p=L,reqq=2048,pay=0:-)" (int_of_n i) (if on then 1 else 0) (string_of_n ms)
  | OToggle (i, on) -> Printf.sprintf "E%d(id=0,m::ut_pex=%d,pay=0:-)" (int_of_n i) (if on then 1 else 0)
  | OPex (i, id, a, r) -> Printf.sprintf "E%d(id=%d,added=%s,dropped=%s,pay=0:-)" (int_of_n i) (int_of_n id) (entries_hex a) (entries_hex r)
  | OMeta (i, id, r) -> show_meta (int_of_n i) (int_of_n id) r
  | OClosed i -> Printf.sprintf "X%d" (int_of_n i)

let b01 b = if b then 1 else 0

let snapshot (d : dstate) =
  let cs = List.sort (fun a b -> compare (int_of_n a.c_peer) (int_of_n b.c_peer)) d.d_conns in
  let b = Buffer.create 256 in
  List.iter (fun c ->
    let x = c.c_x and i = c.c_io in
    Buffer.add_string b (Printf.sprintf "S%d[ids=%d,%d le=%d%d rs=%d%d ih=%d ip=%d pend=%d mask=%d rd=%d wr=%d ds=%c up=%c buf=%d lp=%d] "
      (int_of_n c.c_peer) (int_of_n x.x_id_pex) (int_of_n x.x_id_meta) (b01 x.x_le_pex) (b01 x.x_le_meta)
      (b01 x.x_rs_pex) (b01 x.x_rs_meta) (b01 x.x_init_hs) (b01 x.x_init_pex)
      (match i.i_pend with Some _ -> 1 | None -> 0) (int_of_n (mask_num i.i_mask))
      (b01 i.i_in_read) (b01 i.i_in_write) (if i.i_ds_ext then 'E' else 'I')
      (match i.i_up with UIdle -> 'I' | UMsg _ -> 'B') (int_of_n (bytes_of i.i_buf)) (int_of_n x.x_listen))) cs;
  (* av: PeerList available size; incoming ut_pex messages are only generated for private torrents, which never take them *)
  Buffer.add_string b (Printf.sprintf "D[sp=%d pa=%d list=%s av=0]" (int_of_n d.d_size_pex) (b01 d.d_pex_active) (entries_hex d.d_list));
  Buffer.contents b

let parse_hs (s : string) : hs =
  let x = ref None and m = ref None and p = ref None and sz = ref None in
  List.iter (fun f ->
    if String.length f >= 2 then begin
      let v = Some (z_of_string (String.sub f 1 (String.length f - 1))) in
      match f.[0] with
      | 'x' -> x := v | 'm' -> m := v | 'p' -> p := v | 's' -> sz := v | _ -> ()
    end) (String.split_on_char ',' s);
  { hs_pex = !x; hs_meta = !m; hs_port = !p; hs_msize = !sz }

let hs_text (s : string) : string =
  let x = ref "" and m = ref "" and p = ref "" and sz = ref "" in
  List.iter (fun f ->
    if String.length f >= 2 then begin
      let v = String.sub f 1 (String.length f - 1) in
      match f.[0] with
      | 'x' -> x := v | 'm' -> m := v | 'p' -> p := v | 's' -> sz := v | _ -> ()
    end) (String.split_on_char ',' s);
  let fld k v = if v = "" then "" else Printf.sprintf "%d:%si%se" (String.length k) k v in
  "d1:md" ^ fld "ut_metadata" !m ^ fld "ut_pex" !x ^ "e" ^ fld "metadata_size" !sz ^ fld "p" !p ^ "e"

let parse_item (s : string) : msg * n =
  if s = "" then failwith "item" else
  match s.[0] with
  | 'H' ->
      let body = String.sub s 1 (String.length s - 1) in
      (MHandshake (parse_hs body), n_of_int (6 + String.length (hs_text body)))
  | 'X' ->
      let hexs = String.sub s 1 (String.length s - 1) in
      let n = String.length hexs / 2 in
      let text = "d5:added" ^ string_of_int n ^ ":" ^ String.make n 'x' ^ "e" in
      (MExt (n_of_int 1, z_of_int 0, z_of_int 0), n_of_int (6 + String.length text))   (* ut_pex without effect in the model's domain *)
  | 'M' ->
      (match String.split_on_char '.' (String.sub s 1 (String.length s - 1)) with
       | [e; t; p] ->
           let text = "d8:msg_typei" ^ t ^ "e5:piecei" ^ p ^ "ee" in
           (MExt (n_of_string e, z_of_string t, z_of_string p), n_of_int (6 + String.length text))
       | _ -> failwith "item")
  | _ -> failwith "item"

let parse_op (s : string) : op =
  if s = "t" then Tick else if s.[0] = 'P' then SetPex (String.length s > 1 && s.[1] = '1') else begin
    let i = n_of_int (Char.code s.[1] - 48) in
    let arg () = String.sub s 3 (String.length s - 3) in
    match s.[0] with
    | 'c' | 'e' -> Connect i      (* e: the same connection over RC4; the model speaks plaintext *)
    | 'd' -> Close i
    | 'w' -> SetBlocked (i, arg () = "0")   (* drip<k> = unlimited, through partial writes *)
    | 'b' -> Recv (i, List.map parse_item (List.filter (fun x -> x <> "") (String.split_on_char '/' (arg ()))))
    | _ -> failwith "op"
  end

let fx_of_env () =
  match Sys.getenv_opt "C20_FX" with
  | Some s when String.length s = 4 -> { current_fixes with fx_up_nothrow = s.[0] = '1'; fx_pex_false = s.[1] = '1'; fx_drain = s.[2] = '1'; fx_port = s.[3] = '1' }
  | _ -> current_fixes

(* the order policy probed on the compiled code by `harness c20 --probe-order` (C20_ORD=<addr><port>, 0 raw / 1 numeric) *)
let fx_of_env () =
  let fx = fx_of_env () in
  match Sys.getenv_opt "C20_ORD" with
  | Some s when String.length s = 2 -> { fx with fx_ord_addr = s.[0] = '1'; fx_ord_port = s.[1] = '1' }
  | _ -> fx

(* entries are compared as sets: one canonical order for printing *)
let canon (l : (n * n) list) = List.sort (fun (i, p) (j, q) -> compare (int_of_n i, int_of_n p) (int_of_n j, int_of_n q)) l
let () = entries_hex_fwd := (fun l -> entries_hex0 (canon l))

let run_case header ops =
  let kv = List.filter_map (fun t -> match String.index_opt t '=' with
    | Some k -> Some (String.sub t 0 k, String.sub t (k + 1) (String.length t - k - 1)) | None -> None) (split_ws header) in
  let get k = List.assoc k kv in
  let padn = int_of_string (get "pad") and seed = int_of_string (get "seed") in
  let pad = List.init padn (fun g -> byte_tab.(content_byte seed g)) in
  let meta = bytes_of_hex (get "pre") @ pad @ bytes_of_hex (get "suf") in
  let fx = fx_of_env () in
  let notick = (try get "notick" = "1" with Not_found -> false) in
  let d = ref ((if notick then init else start fx) (get "priv" = "1") meta (n_of_string (get "minp"))) in
  let parts = ref [] in
  (try
    List.iter (fun tok ->
      match step fx !d (parse_op tok) with
      | SInternalError -> parts := "ERR:internal" :: !parts; raise Exit
      | SUnmodelled -> parts := "UNMODELLED" :: !parts; raise Exit
      | SOk (d', outs) ->
          d := d';
          let outs = List.stable_sort (fun a b -> compare (peer_of a) (peer_of b)) outs in
          let ev = String.concat "" (List.map (fun o -> show_out o ^ " ") outs) in
          parts := (tok ^ " => " ^ ev ^ "# " ^ snapshot d') :: !parts) ops
  with Exit -> ());
  String.concat " ; " (List.rev !parts)

let show_reply r = match r with
  | MReject p -> "REJECT " ^ string_of_n p
  | MData (p, t, pl) -> Printf.sprintf "DATA %s %s %s" (string_of_n p) (string_of_n t) (pay_str pl)

(* ---- unit-level PEX rounds: "U | A<lo>-<hi>:<base> R<lo>-<hi> x ..." *)
let show_entries (l : (n * n) list) =
  if l = [] then "." else String.concat "," (List.map (fun (i, p) -> string_of_n i ^ ":" ^ string_of_n p) (canon l))
let show_pexbuf = function
  | None -> "-"
  | Some (a, r) -> show_entries a ^ "/" ^ show_entries r

let run_unit ops =
  let d = ref (init false [] (n_of_int 40)) in
  let parts = ref [] in
  let range op =
    let dash = String.index op '-' in
    let col = try String.index op ':' with Not_found -> String.length op in
    let lo = int_of_string (String.sub op 1 (dash - 1)) in
    let hi = int_of_string (String.sub op (dash + 1) (col - dash - 1)) in
    let base = if col < String.length op then int_of_string (String.sub op (col + 1) (String.length op - col - 1)) else 0 in
    (lo, hi, base) in
  (try List.iter (fun op ->
    match op.[0] with
    | 'A' ->
        let (lo, hi, base) = range op in
        for k = lo to min hi 4095 do
          if not (List.exists (fun c -> int_of_n c.c_peer = k) !d.d_conns) then begin
            let c0 = default_conn (n_of_int k) false in
            let port = if base = 0 then 0 else (base + k) land 0xffff in
            let c = { c0 with c_x = { c0.c_x with x_listen = n_of_int port } } in
            d := set_conns !d (!d.d_conns @ [c]) !d.d_size_pex
          end
        done
    | 'R' ->
        let (lo, hi, _) = range op in
        for k = lo to min hi 4095 do
          d := set_conns !d (erase_conn (n_of_int k) !d.d_conns) !d.d_size_pex
        done
    | 'x' ->
        (match do_peer_exchange (fx_of_env ()) !d with
         | DpeInternalError -> parts := "ERR:internal" :: !parts; raise Exit
         | DpeOk d' ->
             d := d';
             parts := ("x => list=" ^ show_entries d'.d_list ^ " ini=" ^ show_pexbuf d'.d_initial ^ " del=" ^ show_pexbuf d'.d_delta) :: !parts)
    | _ -> failwith "unit op") ops
  with Exit -> ());
  String.concat " ; " (List.rev !parts)

(* ---- fetcher cases: "F pre=.. pad=.. seed=.. suf=.. | op@i:p,i:p op@ ..." (requests after '@' = delegator oracle,
   taken by the glue from the implementation's own output of that op) *)
let md5_bytes (l : n list) : n list =
  let d = Digest.string (string_of_bytes l) in
  List.init (String.length d) (fun i -> n_of_int (Char.code d.[i]))

let run_fetch header ops =
  let kv = List.filter_map (fun t -> match String.index_opt t '=' with
    | Some k -> Some (String.sub t 0 k, String.sub t (k + 1) (String.length t - k - 1)) | None -> None) (split_ws header) in
  let get k = List.assoc k kv in
  let padn = int_of_string (get "pad") and seed = int_of_string (get "seed") in
  let info = Array.of_list (bytes_of_hex (get "pre") @ List.init padn (fun g -> byte_tab.(content_byte seed g)) @ bytes_of_hex (get "suf")) in
  let size = Array.length info in
  let npieces = (size + 16383) / 16384 in
  let slice p = if p < 0 || p >= npieces then [] else Array.to_list (Array.sub info (p * 16384) (min 16384 (size - p * 16384))) in
  let g = ref (ginit (md5_bytes (Array.to_list info))) in
  let fields s =
    let m = ref None and sz = ref None in
    List.iter (fun f -> if String.length f >= 2 then begin
      let v = Some (z_of_string (String.sub f 1 (String.length f - 1))) in
      match f.[0] with 'm' -> m := v | 's' -> sz := v | _ -> () end) (String.split_on_char ',' s);
    (!m, !sz) in
  let parts = ref [] in
  List.iter (fun tok ->
    let (op, reqs) = match String.index_opt tok '@' with
      | Some k -> (String.sub tok 0 k, String.sub tok (k + 1) (String.length tok - k - 1))
      | None -> (tok, "") in
    let arg () = if String.length op > 3 then String.sub op 3 (String.length op - 3) else "" in
    let idx () = n_of_int (Char.code op.[1] - 48) in
    let gop =
      if op = "t" then GTick else
      match op.[0] with
      | 'c' -> let (m, s) = fields (arg ()) in GConnect (idx (), m, s)
      | 'h' -> let (m, s) = fields (arg ()) in GHandshake (idx (), m, s)
      | 'j' -> GReject (idx (), z_of_string (arg ()))
      | 'q' ->
          let l = List.hd (String.split_on_char ':' (arg ())) in     (* ":split<k>" only changes the TCP segmentation *)
          GAsk (idx (), List.map z_of_string (List.filter (fun x -> x <> "") (String.split_on_char ',' l)))
      | 'd' -> GClose (idx ())
      | 'p' ->
          (match String.split_on_char ':' (arg ()) with
           | pc :: kind :: _ ->
               let p = (try int_of_string pc with _ -> -1) in
               let sl = slice p in
               let starts pre = String.length kind >= String.length pre && String.sub kind 0 (String.length pre) = pre in
               let data =
                 if kind = "bad" then (match sl with x :: r -> n_of_int ((int_of_n x) lxor 0x55) :: r | [] -> [])
                 else if kind = "short" then (match List.rev sl with _ :: r -> List.rev r | [] -> [])
                 else if kind = "long" then sl @ [n_of_int 90]
                 else if starts "len" then List.filteri (fun i _ -> i < int_of_string (String.sub kind 3 (String.length kind - 3))) sl
                 else sl in
               GData (idx (), z_of_string pc, data)
           | _ -> failwith "p op")
      | _ -> failwith "fetch op" in
    let run o = let (g', outs) = gstep md5_bytes !g o in g := g'; outs in
    let outs0 = run gop in
    (* a failed hash of the assembled metadata: what happens to the provider afterwards (kept, or dropped by the
       transfer list's bad-peer handling) is not constrained by the property and not modelled: the glue stops comparing here *)
    let hashfail = List.mem GHashFailed outs0 in
    let outs = List.filter (fun o -> o <> GHashFailed) outs0 in
    let routs = List.concat_map (fun r ->
      if r = "" then [] else
      match String.split_on_char ':' r with
      | [i; p] -> run (GRequest (n_of_string i, n_of_string p))
      | _ -> failwith "req") (String.split_on_char ',' reqs) in
    let key o = match o with GQ (i, _, _) -> (int_of_n i, 0) | GInadmissible (i, _) -> (int_of_n i, 0) | GJ (i, _, _) -> (int_of_n i, 0) | GClosed i -> (int_of_n i, 1) | GHashFailed -> (99, 2) in
    let all = List.stable_sort (fun a b -> compare (key a) (key b)) (outs @ routs) in
    let ev = String.concat "" (List.map (fun o -> match o with
      | GQ (i, id, p) -> Printf.sprintf "Q%d(id=%d,piece=%s) " (int_of_n i) (int_of_n id) (string_of_n p)
      | GInadmissible (i, p) -> Printf.sprintf "INADMISSIBLE%d(%s) " (int_of_n i) (string_of_n p)
      | GJ (i, id, p) -> Printf.sprintf "J%d(id=%d,piece=%s) " (int_of_n i) (int_of_n id) (string_of_n p)
      | GHashFailed -> ""
      | GClosed i -> Printf.sprintf "X%d " (int_of_n i)) all) in
    let s = !g in
    let sz = match s.g_size with Some n -> string_of_n n | None -> "1" in
    let (dn, file) = match s.g_done with Some d -> ("1", pay_str d) | None -> ("0", "-") in
    let conns = String.concat "" (List.map (fun q -> Printf.sprintf " C%d[idm=%d rs=%d rd=1 wr=0 pend=0]" (int_of_n q.p_idx) (int_of_n q.p_idm) (b01 q.p_rs))
      (List.sort (fun a b -> compare (int_of_n a.p_idx) (int_of_n b.p_idx)) s.g_peers)) in
    parts := (Printf.sprintf "%s => %s# F[size=%s chunk=%s done=%s have=%s file=%s]%s%s" op ev sz sz dn dn file conns (if hashfail then " !hashfail" else "")) :: !parts) ops;
  (match !g.g_done with Some _ -> parts := "same=1" :: !parts | None -> ());
  String.concat " ; " (List.rev !parts)

let () = each_line (fun line ->
  match split_ws line with
  | ["SLICE"; h; p] ->
      let m = bytes_of_hex h in
      show_reply (send_metadata_piece false m (n_of_string p)) ^ " | " ^ show_reply (send_metadata_piece_old false m (n_of_string p))
  | "U" :: "|" :: ops -> run_unit ops
  | "F" :: _ ->
    (match String.index_opt line '|' with
     | None -> "BADCASE"
     | Some k -> run_fetch (String.sub line 2 (k - 2)) (split_ws (String.sub line (k + 1) (String.length line - k - 1))))
  | _ ->
    (match String.index_opt line '|' with
     | None -> "BADCASE"
     | Some k -> run_case (String.sub line 0 k) (split_ws (String.sub line (k + 1) (String.length line - k - 1)))))
