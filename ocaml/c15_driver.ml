(* C15 model driver; same case protocol and output format as harness/c15.cc (see there). *)

(* ---- SHA-1 (the model takes it as a parameter; here the real function is supplied) ---- *)
let sha1_ints (msg : int list) : int list =
  let m32 = 0xffffffff in
  let rol x n = ((x lsl n) lor (x lsr (32 - n))) land m32 in
  let len = List.length msg in
  let padlen = let r = (len + 1) mod 64 in if r <= 56 then 56 - r else 120 - r in
  let bits = len * 8 in
  let tail = List.init 8 (fun i -> (bits lsr (8 * (7 - i))) land 255) in
  let data = Array.of_list (msg @ [0x80] @ List.init padlen (fun _ -> 0) @ tail) in
  let h0 = ref 0x67452301 and h1 = ref 0xEFCDAB89 and h2 = ref 0x98BADCFE and h3 = ref 0x10325476 and h4 = ref 0xC3D2E1F0 in
  let nblocks = Array.length data / 64 in
  for b = 0 to nblocks - 1 do
    let w = Array.make 80 0 in
    for i = 0 to 15 do
      let o = b * 64 + i * 4 in
      w.(i) <- (data.(o) lsl 24) lor (data.(o + 1) lsl 16) lor (data.(o + 2) lsl 8) lor data.(o + 3)
    done;
    for i = 16 to 79 do w.(i) <- rol (w.(i - 3) lxor w.(i - 8) lxor w.(i - 14) lxor w.(i - 16)) 1 done;
    let a = ref !h0 and bb = ref !h1 and c = ref !h2 and d = ref !h3 and e = ref !h4 in
    for i = 0 to 79 do
      let f, k =
        if i < 20 then ((!bb land !c) lor ((lnot !bb) land m32 land !d), 0x5A827999)
        else if i < 40 then (!bb lxor !c lxor !d, 0x6ED9EBA1)
        else if i < 60 then ((!bb land !c) lor (!bb land !d) lor (!c land !d), 0x8F1BBCDC)
        else (!bb lxor !c lxor !d, 0xCA62C1D6) in
      let t = (rol !a 5 + f + !e + k + w.(i)) land m32 in
      e := !d; d := !c; c := rol !bb 30; bb := !a; a := t
    done;
    h0 := (!h0 + !a) land m32; h1 := (!h1 + !bb) land m32; h2 := (!h2 + !c) land m32;
    h3 := (!h3 + !d) land m32; h4 := (!h4 + !e) land m32
  done;
  List.concat_map (fun h -> [(h lsr 24) land 255; (h lsr 16) land 255; (h lsr 8) land 255; h land 255]) [!h0; !h1; !h2; !h3; !h4]

let sha (l : n list) : n list = List.map (fun i -> byte_tab.(i)) (sha1_ints (List.map int_of_n l))

(* ---- conversions ---- *)
let id_of_hex h = n_of_zt (BZ.of_string ("0x" ^ h))
let hex_of_id x = BZ.format "%040x" (zt_of_n x)
let sn = string_of_n

let split_on c s = String.split_on_char c s

let fnv32 (s : string) : int =
  let h = ref 2166136261 in
  String.iter (fun c -> h := ((!h lxor Char.code c) * 16777619) land 0xffffffff) s;
  !h

let hexbytes (l : n list) = hex_of_bytes l

let centries (l : ((n * n) * n) list) : string =
  if l = [] then "-" else
  String.concat "" (List.map (fun ((id, ip), port) ->
    let ipi = int_of_n ip and p = int_of_n port in
    Printf.sprintf "%s%08x%04x" (hex_of_id id) ipi p) l)

let dump (s : state) : string =
  let b = Buffer.create 1024 in
  let t = s.tab in
  let nn = List.fold_left (fun a bk -> a + List.length bk.bnodes) 0 t.tb in
  Buffer.add_string b (Printf.sprintf "own=%s now=%s cur=%s prev=%s nn=%d" (hex_of_id t.town) (sn s.now) (sn s.cur) (sn s.prev) nn);
  List.iter (fun bk ->
    Buffer.add_string b (Printf.sprintf " B[%s-%s c=%s g=%s b=%s k=%d:" (hex_of_id bk.blo) (hex_of_id bk.bhi) (sn bk.bchanged)
                           (sn bk.bgood) (sn bk.bbad) (26 * List.length bk.bcache));
    Buffer.add_string b (String.concat "," (List.map (fun nd ->
      Printf.sprintf "%s/%s/%s/%s/%d/%s" (hex_of_id nd.nid) (sn nd.nip) (sn nd.nport) (sn nd.nseen) (if nd.nact then 1 else 0) (sn nd.ninact)) bk.bnodes));
    Buffer.add_string b "]") t.tb;
  Buffer.add_string b " chain=";
  Buffer.add_string b (String.concat "," (List.map hex_of_id t.tchain));
  Buffer.add_string b " trk=";
  List.iter (fun (ih, peers) ->
    Buffer.add_string b ("[" ^ hex_of_id ih ^ ":");
    Buffer.add_string b (String.concat "," (List.map (fun p ->
      let ipi = int_of_n p.pip and po = int_of_n p.pport in
      Printf.sprintf "%08x%02x%02x/%s" ipi (po land 255) ((po lsr 8) land 255) (sn p.pseen)) peers));
    Buffer.add_string b "]") (List.sort (fun (a, _) (c, _) -> BZ.compare (zt_of_n a) (zt_of_n c)) s.trackers);
  Buffer.contents b

let err_msg c = match int_of_n c with
  | 1 -> "err:Token invalid." | 2 -> "err:No peers nor nodes" | 3 -> "err:No nodes" | 4 -> "err:Invalid port." | _ -> "err:?"

let opt_str (f : string) : n list option =
  if f = "~" || f = "!" then None else Some (bytes_of_hex f)
let opt_show = function None -> "~" | Some l -> hexbytes l

let derr_msg = function
  | E_no_tid -> "203 No_transaction_ID" | E_tid_long -> "203 Transaction_ID_length_too_long"
  | E_no_type -> "203 No_message_type" | E_unsupported_type -> "204 Unsupported_message_type"
  | E_bad_id -> "203 Invalid_`id'_value" | E_id_short -> "203 `id'_value_too_short"
  | E_own_id -> "203 Send_your_own_ID,_not_mine" | E_unknown_type -> "204 Unknown_message_type."
  | E_malformed -> "203 Malformed_packet" | E_target_short -> "203 target_string_too_short"
  | E_no_nodes -> "201 No_nodes" | E_ih_short -> "203 info_hash_too_short"
  | E_no_peers_nodes -> "201 No_peers_nor_nodes" | E_token -> "203 Token_invalid."
  | E_unknown_query -> "204 Unknown_query_type." | E_port -> "203 Invalid_port."
  | E_bad_t -> "203 Invalid_transaction_ID_type/length."

let show_reply (s : state) (r : reply) : string =
  match r with
  | RpNone -> "none"
  | RpErr (t, e) -> "e t=" ^ opt_show t ^ " " ^ derr_msg e
  | RpOk (t, tok, nodes, vals) ->
      "r t=" ^ hexbytes t ^ " id=" ^ hex_of_id s.own ^ " tok=" ^ opt_show tok ^
      " n=" ^ (match nodes with None -> "~" | Some l -> centries l) ^
      " v=" ^ (match vals with None -> "~" | Some [] -> "-" | Some v -> String.concat "," (List.map hexbytes v))

let parse_op (tok : string) : string * op =
  let f = Array.of_list (split_on ',' tok) in
  let k = f.(0) in
  let nd i = n_of_string f.(i) in
  let o = match k with
    | "U" ->
        let port = if f.(10) = "~" then PAbsent else if f.(10) = "!" then POther else PInt (z_of_string f.(10)) in
        ODgram (nd 1, nd 2, { m_t = opt_str f.(3); m_y = opt_str f.(4); m_q = opt_str f.(5); m_id = opt_str f.(6);
                              m_target = opt_str f.(7); m_ih = opt_str f.(8); m_token = opt_str f.(9); m_port = port })
    | "X" -> OGarbage (nd 1)
    | "T" -> OTick (nd 1)
    | "Q" -> OQueried (id_of_hex f.(1), nd 2, nd 3)
    | "R" -> OReplied (id_of_hex f.(1), nd 2, nd 3)
    | "I" -> OInactive (id_of_hex f.(1), nd 2, nd 3)
    | "V" -> OInvalid (id_of_hex f.(1))
    | "H" -> OHousekeeping (nd 1)
    | "G" -> OMakeToken (nd 1)
    | "K" -> OTokenValid (bytes_of_hex f.(1), nd 2)
    | "A" -> OAnnounce (id_of_hex f.(1), nd 2, nd 3, bytes_of_hex f.(4))
    | "P" -> OGetPeers (id_of_hex f.(1), nd 2, nd 3)
    | "F" -> OFindNode (id_of_hex f.(1))
    | "W" -> OWant (id_of_hex f.(1))
    | "D" -> ODump
    | _ -> failwith "op" in
  (k, o)

let show_res (k : string) (s : state) (r : res) : string =
  match r with
  | Rskip -> "x"
  | Rnone -> if k = "D" then dump s else if k = "A" then "ok" else "-"
  | Rbool b -> if b then "1" else "0"
  | Rtok t -> hexbytes t
  | Rerr c -> err_msg c
  | Rnodes l -> "n=" ^ centries l
  | Rpeers (t, v) -> "t=" ^ hexbytes t ^ " v=" ^ (if v = [] then "-" else String.concat "," (List.map hexbytes v))
  | Rpnodes (t, l) -> "t=" ^ hexbytes t ^ " n=" ^ centries l
  | Rdg r -> show_reply s r

(* transaction layer ops:  Y,ip,t,id (reply)   E,ip,t (error)   S (server timeout pass)   Z (dump) *)
let parse_sop (tok : string) : string * sop =
  let f = Array.of_list (split_on ',' tok) in
  match f.(0) with
  | "Y" -> ("Y", SReply (n_of_string f.(1), opt_str f.(2), opt_str f.(3)))
  | "E" -> ("E", SError (n_of_string f.(1), opt_str f.(2)))
  | "S" -> ("S", STimeout)
  | "Z" -> ("Z", STxDump)
  | _ -> let (k, o) = parse_op tok in (k, SBase o)

let txdump (ss : sstate) : string =
  if ss.untracked then "x" else
  let l = List.sort (fun a c -> compare (int_of_n a.x_ip) (int_of_n c.x_ip)) ss.txs in
  "tx=" ^ String.concat "," (List.map (fun x ->
    Printf.sprintf "%s/%s/%s/%s/%d" (sn x.x_ip) (sn x.x_tid) (hex_of_id x.x_id) (sn x.x_timeout) (if x.x_sent then 1 else 0)) l)
  ^ " up=" ^ (if ss.netup then "1" else "0")

let run_case (line : string) : string =
  match split_ws line with
  | "N" :: ownh :: c :: p :: t0 :: ops ->
      let fl = (int_of_string c + 7 * int_of_string p) land 0x7fffffff in
      let s = ref (sinit (id_of_hex ownh) (n_of_string c) (n_of_string p) (n_of_string t0) (n_of_int fl)) in
      let b = Buffer.create 4096 in
      (try
        List.iter (fun tok ->
          let (k, o) = parse_sop tok in
          let (s', r) = sstep sha !s o in
          if s'.rs.err then raise Exit;
          s := s';
          let shown = if k = "Z" then txdump s' else show_res k s'.rs r in
          Buffer.add_string b (Printf.sprintf "%s:%s#%08x | " k shown (fnv32 (dump s'.rs)))) ops;
        Buffer.add_string b ("END " ^ dump !s.rs)
      with Exit -> Buffer.add_string b "ERR:internal");
      Buffer.contents b
  | _ -> "BADCASE"

(* dht::DhtSearch unit: "S <target> <op>*" *)
let sstat c = match c.c_st with CNew -> "N" | CActive -> "A" | CGood -> "G" | CBad -> "B"
let sdump (s : search) : string =
  Printf.sprintf "n=%d p=%s c=%s r=%s k=%s rs=%d st=%d nx=%s [%s]" (List.length s.s_cs) (sn s.s_pending) (sn s.s_contacted)
    (sn s.s_replied) (sn s.s_conc) (if s.s_restart then 1 else 0) (if s.s_started then 1 else 0)
    (match s.s_next with None -> "-" | Some i -> hex_of_id i)
    (String.concat "," (List.map (fun c -> hex_of_id c.c_id ^ "/" ^ sstat c) s.s_cs))

let run_search_case (toks : string list) : string =
  match toks with
  | target :: ops ->
      let s = ref (search_init (id_of_hex target)) in
      let b = Buffer.create 1024 in
      (try
        List.iter (fun tok ->
          let f = Array.of_list (split_on ',' tok) in
          let actives = List.filter (fun c -> c.c_st = CActive) !s.s_cs in
          let (o, pre) = match f.(0) with
            | "a" -> (Some (SAdd (id_of_hex f.(1), n_of_string f.(2), n_of_string f.(3))), "")
            | "g" -> (Some SGet, "")
            | "s" ->
                if f.(1) = "first" || f.(1) = "last" then
                  (match actives with
                   | [] -> (None, "noactive")
                   | l -> let c = if f.(1) = "first" then List.hd l else List.nth l (List.length l - 1) in
                          (Some (SStatus (c.c_id, f.(2) = "1")), ""))
                else (Some (SStatus (id_of_hex f.(1), f.(2) = "1")), "")
            | "t" -> (Some STrimFinal, "")
            | "b" -> (Some SStart, "")
            | _ -> failwith "op" in
          let shown = match o with
            | None -> pre
            | Some op ->
                let (s', r) = search_step !s op in
                if s'.s_err then raise Exit;
                s := s';
                (match r with SRnone -> "-" | SRbool x -> if x then "1" else "0" | SRid None -> "none" | SRid (Some i) -> hex_of_id i) in
          Buffer.add_string b (Printf.sprintf "%s:%s#%08x | " f.(0) shown (fnv32 (sdump !s)))) ops;
        Buffer.add_string b ("END " ^ sdump !s ^ (if search_complete !s then " complete" else ""))
      with Exit -> Buffer.add_string b "ERR:internal");
      Buffer.contents b
  | _ -> "BADCASE"

let () = each_line (fun line ->
  match split_ws line with
  | "S" :: rest -> run_search_case rest
  | _ -> run_case line)
