(* C18 model driver. Case:  <main cmds> / <disk cmds> / <schedule digits 0|1>
   cmds: P:<chunk>:<torrent>  R:<torrent>  D
   Output: S <step>* | F <fin bits> E <err> O <chunk:outcome ...> H <hq size> Q <cq>.<dn> M <mq>.<dq>
   step = <t>:<label>:<flag>:<cq>.<dn>.<mq>.<dq>:<intr bits>[:events]   or <t>:-
   events: X<c> cancellation delivered for chunk c; G a digest delivered (identity not compared per step) *)
let split_on c s = List.map String.trim (String.split_on_char c s)
let parse_cmd tok = match String.split_on_char ':' tok with
  | ["P"; c; t] -> Push (nat_of_int (int_of_string c), nat_of_int (int_of_string t))
  | ["R"; t] -> Remove (nat_of_int (int_of_string t))
  | ["D"] -> Dispatch
  | ["LOOP"] -> Loop
  | _ -> failwith ("cmd " ^ tok)
let parse_list s = List.map parse_cmd (split_ws s)
let label_s = function
  | L_hcq_push_lock -> "hcq_push_lock" | L_cbn_lock -> "cbn_lock" | L_cb_interrupt -> "cb_interrupt"
  | L_hcq_remove_lock -> "hcq_remove_lock" | L_hq_done_lock -> "hq_done_lock" | L_hq_wait -> "hq_wait"
  | L_pc_store -> "pc_store" | L_pc_lock -> "pc_lock" | L_hq_pop_lock -> "hq_pop_lock"
  | L_hcq_pop_lock -> "hcq_pop_lock" | L_hq_publish_lock -> "hq_publish_lock"
let b x = if x then "1" else "0"
let rec take n l = if n <= 0 then [] else match l with [] -> [] | x :: r -> x :: take (n - 1) r
let state_s s = Printf.sprintf "%s:%d.%d.%d.%d:%s%s" (b s.flag) (List.length s.cq) (List.length s.dn)
  (int_of_nat s.mq) (int_of_nat s.dq) (b s.intr0) (b s.intr1)
let ev_s = function Cancelled c -> "X" ^ string_of_int (int_of_nat c) | Digest _ -> "G"
let enum limit s0 =
  let out = ref [] and n = ref 0 and complete = ref true in
  (* the main thread can busy-wait in remove() (probe / wait with the flag already set): paths are cut at depth 80 *)
  let rec go s acc depth =
    if !n >= limit then complete := false else begin
      let any = ref false in
      if depth < 80 then
      for ti = 0 to 1 do
        match step s (nat_of_int ti) with
        | Some s' -> any := true; go s' (Char.chr (48 + ti) :: acc) (depth + 1)
        | None -> ()
      done else complete := false;
      if not !any then begin incr n; let a = Array.of_list (List.rev acc) in out := String.init (Array.length a) (fun i -> a.(i)) :: !out end
    end in
  go s0 [] 0;
  (if !complete then "COMPLETE " else "PARTIAL ") ^ String.concat " " (List.rev !out)

let () = each_line (fun line ->
  match split_on '/' line with
  | [p0; p1] when String.length p0 > 4 && String.sub p0 0 4 = "ENUM" ->
      (match split_ws p0 with
       | _ :: l :: rest -> enum (int_of_string l) (init (List.map parse_cmd rest) (parse_list p1))
       | _ -> "BADCASE")
  | [p0; p1; sched] ->
      let s = ref (init (parse_list p0) (parse_list p1)) in
      let buf = Buffer.create 1024 in
      Buffer.add_string buf "S";
      String.iter (fun ch -> if ch = '0' || ch = '1' then begin
        let ti = Char.code ch - 48 in let t = nat_of_int ti in
        match label_at !s t, step !s t with
        | Some l, Some s' ->
            let n = List.length s'.notes - List.length !s.notes in
            let evs = List.map ev_s (List.rev (take n s'.notes)) in
            Buffer.add_string buf (Printf.sprintf " %d:%s:%s" ti (label_s l) (state_s s'));
            if evs <> [] then Buffer.add_string buf (":" ^ String.concat "+" evs);
            s := s'
        | _ -> Buffer.add_string buf (Printf.sprintf " %d:-" ti) end) sched;
      let s = !s in
      let outs = List.sort compare (List.map (function Digest c -> (int_of_nat c, "digest") | Cancelled c -> (int_of_nat c, "cancel")) s.notes) in
      Buffer.add_string buf (Printf.sprintf " | F %s%s E %s O %s H %d Q %d.%d M %d.%d B %d"
        (b (s.td0 = [])) (b (s.td1 = [])) (b s.err)
        (String.concat "," (List.map (fun (c, o) -> Printf.sprintf "%d:%s" c o) outs))
        (List.length s.hq) (List.length s.cq) (List.length s.dn) (int_of_nat s.mq) (int_of_nat s.dq)
        (List.length s.hq) (* blocking mapping references held = one per pending node (released in the notification) *));
      Buffer.contents buf
  | _ -> "BADCASE")
