(* C08 model driver. Same protocol as harness/c08.cc:
     T <u|o> <tree>    torrent object as a value tree, flag_unordered of b["info"]
     B <hex>           bencoded bytes (C07 buffer decoder, then the loader)
     U <hex>           magnet URI
   SHA-1 (a Section variable of the Coq development) is supplied here, written out in OCaml. *)
let sha1 (msg : string) : string =
  let m32 = 0xFFFFFFFF in
  let rol x n = ((x lsl n) lor (x lsr (32 - n))) land m32 in
  let len = String.length msg in
  let padlen = let r = (len + 9) mod 64 in if r = 0 then 0 else 64 - r in
  let total = len + 9 + padlen in
  let b = Bytes.make total '\000' in
  Bytes.blit_string msg 0 b 0 len;
  Bytes.set b len '\x80';
  let bits = len * 8 in
  for i = 0 to 7 do
    Bytes.set b (total - 1 - i) (Char.chr ((bits lsr (8 * i)) land 0xff))
  done;
  let h0 = ref 0x67452301 and h1 = ref 0xEFCDAB89 and h2 = ref 0x98BADCFE and h3 = ref 0x10325476 and h4 = ref 0xC3D2E1F0 in
  let w = Array.make 80 0 in
  for blk = 0 to total / 64 - 1 do
    for i = 0 to 15 do
      let g k = Char.code (Bytes.get b (blk * 64 + i * 4 + k)) in
      w.(i) <- (g 0 lsl 24) lor (g 1 lsl 16) lor (g 2 lsl 8) lor g 3
    done;
    for i = 16 to 79 do
      w.(i) <- rol (w.(i-3) lxor w.(i-8) lxor w.(i-14) lxor w.(i-16)) 1
    done;
    let a = ref !h0 and bb = ref !h1 and c = ref !h2 and d = ref !h3 and e = ref !h4 in
    for i = 0 to 79 do
      let f, k =
        if i < 20 then ((!bb land !c) lor ((lnot !bb) land m32 land !d), 0x5A827999)
        else if i < 40 then (!bb lxor !c lxor !d, 0x6ED9EBA1)
        else if i < 60 then ((!bb land !c) lor (!bb land !d) lor (!c land !d), 0x8F1BBCDC)
        else (!bb lxor !c lxor !d, 0xCA62C1D6) in
      let t = (rol !a 5 + f + !e + k + w.(i)) land m32 in
      e := !d; d := !c; c := rol !bb 30; bb := !a; a := t
    done;
    h0 := (!h0 + !a) land m32; h1 := (!h1 + !bb) land m32; h2 := (!h2 + !c) land m32;
    h3 := (!h3 + !d) land m32; h4 := (!h4 + !e) land m32
  done;
  let out = Bytes.create 20 in
  List.iteri (fun i h ->
    for k = 0 to 3 do Bytes.set out (i * 4 + k) (Char.chr ((h lsr (24 - 8 * k)) land 0xff)) done)
    [!h0; !h1; !h2; !h3; !h4];
  Bytes.to_string out

let string_of_bytes (l : n list) : string =
  let b = Buffer.create 64 in
  List.iter (fun x -> Buffer.add_char b (Char.chr (int_of_n x))) l; Buffer.contents b
let bytes_of_string (s : string) : n list =
  List.init (String.length s) (fun i -> byte_tab.(Char.code s.[i]))
let h_model (l : n list) : n list = bytes_of_string (sha1 (string_of_bytes l))

let rec parse_tree toks = match toks with
  | "I" :: z :: r -> (VInt (z_of_string z), r)
  | "S" :: h :: r -> (VStr (bytes_of_hex h), r)
  | "L" :: n :: r ->
      let rec go k r acc = if k = 0 then (VList (List.rev acc), r)
        else let (v, r') = parse_tree r in go (k - 1) r' (v :: acc) in
      go (int_of_string n) r []
  | "M" :: n :: r ->
      let rec go k r acc = if k = 0 then (VMap (List.rev acc), r)
        else match r with
          | h :: r1 -> let (v, r') = parse_tree r1 in go (k - 1) r' ((bytes_of_hex h, v) :: acc)
          | [] -> failwith "tree" in
      go (int_of_string n) r []
  | _ -> failwith "tree"

let join = function [] -> "-" | l -> String.concat "," l
let b01 b = if b then "1" else "0"

let open_chunk_limit = 4096
let open_file_limit = 64

let scratch_root = bytes_of_string "/SCRATCH"
let scratch_root2 = bytes_of_string "/SCRATCH2/other"

(* the policy probed from the implementation: --policy <pl_min> <pl_max> <reject_foreign_xt 0|1> *)
let pol =
  let rec find i = if i + 3 >= Array.length Sys.argv then None
    else if Sys.argv.(i) = "--policy" then Some (Sys.argv.(i+1), Sys.argv.(i+2), Sys.argv.(i+3)) else find (i + 1) in
  match find 1 with
  | Some (a, b, c) -> { pl_min = n_of_string a; pl_max = n_of_string b; reject_foreign_xt = (c = "1") }
  | None -> default_policy
let has_arg a = Array.exists (fun x -> x = a) Sys.argv

let show (r : download lres) : string = match r with
  | LErr EInput -> "REJECT"          (* which input-error class / message: not constrained by the property *)
  | LErr EBencode -> "REJECT"
  | LErr EInternal -> "ERR:internal"
  | LErr EStorage -> "ERR:storage"
  | LFault -> "FAULT"
  | LOk d ->
      let files = List.map (fun f ->
        let p = match f.f_path with [] -> "-" | cs -> String.concat "/" (List.map hex_of_bytes cs) in
        Printf.sprintf "%s:%s:%s:%s-%s:%s" p (string_of_n f.f_size) (string_of_n f.f_offset)
          (string_of_n f.f_r1) (string_of_n f.f_r2) (if f.f_pad then "p" else "n")) d.d_files in
      let head = Printf.sprintf "OK name=%s multi=%s priv=%s meta=%s cs=%s size=%s chunks=%s pieces=%d root=%s ih=%s nfiles=%d files=%s"
        (hex_of_bytes d.d_name) (b01 d.d_multi) (b01 d.d_private) (b01 d.d_meta) (string_of_n d.d_chunk_size)
        (string_of_n d.d_size) (string_of_n d.d_chunks) (List.length d.d_pieces) (hex_of_bytes d.d_root)
        (hex_of_bytes d.d_infohash) (List.length d.d_files) (join files) in
      if int_of_n d.d_chunks > open_chunk_limit || List.length d.d_files > open_file_limit then head ^ " | OPEN:skip"
      else begin
        (* the client's choice of root: <scratch>/<name> for multi-file torrents *)
        let root = if d.d_multi then scratch_root @ (byte_tab.(47) :: d.d_name) else scratch_root in
        let pre = List.length scratch_root + 1 in
        let rec drop k l = if k = 0 then l else match l with [] -> [] | _ :: t -> drop (k - 1) t in
        let root2 = if d.d_multi then scratch_root2 @ (byte_tab.(47) :: d.d_name) else scratch_root2 in
        let pre2 = List.length scratch_root2 + 1 in
        match open_paths root d with
        | LOk fr ->
            let inodes = List.map (fun (p, isf) -> (if isf then "f:" else "d:") ^ hex_of_bytes p) (inode_list d) in
            let phase1 = head ^ " | OPEN:ok frozen=" ^ join (List.map (fun p -> hex_of_bytes (drop pre p)) fr) ^ " | FS:ok " ^ join inodes in
            (* close, set_root_dir(another root), open again: frozen paths are recomputed from the
               CURRENT root; the same relative tree appears under the new root and nowhere else *)
            (match open_paths root2 d with
             | LOk fr2 -> phase1 ^ " | OPEN2:ok frozen=" ^ join (List.map (fun p -> hex_of_bytes (drop pre2 p)) fr2) ^ " | FS2:ok " ^ join inodes
             | _ -> phase1 ^ " | OPEN2:err")
        | LErr EStorage -> head ^ " | OPEN:err:storage"
        | LErr _ -> head ^ " | OPEN:err:other"
        | LFault -> head ^ " | OPEN:FAULT"
      end

(* --cov: instead of results, print the branch tags of the MODEL's magnet parser reached by each
   U case (Model.magnet_branches; ProofsTrace: the traced parser computes the same results) *)
let cov_mode = has_arg "--cov"

let () = if has_arg "--policy-ok" then begin
  print_string (if policy_ok pol then "policy_ok=1\n" else "policy_ok=0\n"); exit 0 end

let () = each_line (fun line ->
  if cov_mode then
    (match split_ws line with
     | ["U"; h] ->
         let tags = List.sort_uniq compare (List.map int_of_n (magnet_branches pol.reject_foreign_xt (bytes_of_hex h))) in
         String.concat " " (List.map string_of_int tags)
     | _ -> "-")
  else
  match split_ws line with
  | "T" :: fl :: toks ->
      let (v, _) = parse_tree toks in
      show (load_tree h_model pol v (fl = "u"))
  | ["B"; h] ->
      (match load_bytes h_model pol (bytes_of_hex h) with
       | Some r -> show r
       | None -> "REJECT")
  | ["U"; h] -> show (load_uri h_model pol (bytes_of_hex h))
  | _ -> "BADCASE")
