(* C19 model driver. Case line (sections separated by '|'):
     <n> <k> | <valid mask, n chars 0/1, or -> | <scripts: e:op,op;e:op or -> | <ops: op,op,... or ->
   op ::= W e t | F e dt | C e dt | U e t | G e dt | D e dt | E e | N m | T t | P t | L t1 d m c   | X e t | Y e | Z e t   (P, L, X, Y, Z only at top level; X/Z/Y = wait_until/update_wait_until/erase on a SECOND scheduler;
         L = one Thread::event_loop iteration: clock t1, call_events takes d and runs script c (or -), thread next_timeout() = m)
   Output: one token per top-level op ('.', ERR:internal, N=<r>, P[<fired entry | N=r | ERR:internal | FUEL>*])
           then '| S[e:due ...] H[time:entry|- ...]' (final scheduled entries and the raw heap array). *)
let parse_bop toks = match toks with
  | ["W"; e; t] -> WaitUntil (nat_of_int (int_of_string e), z_of_string t)
  | ["F"; e; t] -> WaitFor (nat_of_int (int_of_string e), z_of_string t)
  | ["C"; e; t] -> WaitForCeil (nat_of_int (int_of_string e), z_of_string t)
  | ["U"; e; t] -> UpdUntil (nat_of_int (int_of_string e), z_of_string t)
  | ["G"; e; t] -> UpdFor (nat_of_int (int_of_string e), z_of_string t)
  | ["D"; e; t] -> UpdForCeil (nat_of_int (int_of_string e), z_of_string t)
  | ["E"; e] -> Erase (nat_of_int (int_of_string e))
  | ["N"; m] -> NextTimeout (z_of_string m)
  | ["T"; t] -> SetNow (z_of_string t)
  | _ -> failwith "bop"
let parse_op2 s = match split_ws s with
  | ["X"; e; t] -> OnB (WaitUntil (nat_of_int (int_of_string e), z_of_string t))
  | ["Z"; e; t] -> OnB (UpdUntil (nat_of_int (int_of_string e), z_of_string t))
  | ["Y"; e] -> OnB (Erase (nat_of_int (int_of_string e)))
  | _ -> failwith "op2"
let parse_op s = match split_ws s with
  | ["P"; t] -> Perform (z_of_string t)
  | ["L"; t1; d; m; c] -> Loop (z_of_string t1, z_of_string d, z_of_string m,
                                (if c = "-" then None else Some (nat_of_int (int_of_string c))))
  | toks -> Basic (parse_bop toks)
let split_list c s = let s = String.trim s in
  if s = "-" || s = "" then [] else List.map String.trim (String.split_on_char c s)
let show_out = function OOk -> "." | OErr -> "ERR:internal" | ONext r -> "N=" ^ string_of_z r
let show_evs top evs = match evs, top with
  | [EOut o], Basic _ -> show_out o
  | _ ->
    let items = List.filter_map (function
      | EFire (e, _) -> Some (string_of_int (int_of_nat e))
      | EOut OOk -> None
      | EOut o -> Some (show_out o)
      | EFuel -> Some "FUEL"
      | ELoop (t, n, r) -> Some ("th=" ^ string_of_z t ^ " sc=" ^ string_of_z n ^ " r=" ^ string_of_z r)) evs in
    (match top with Loop _ -> "L[" | _ -> "P[") ^ String.concat " " items ^ "]"
(* constants probed from the compiled library (argv), defaults = today's source values *)
let consts =
  let a i d = if Array.length Sys.argv > i then z_of_string Sys.argv.(i) else z_of_string d in
  let day365 = "31536000000000" and y10 = "315360000000000" in
  { c_min_wait = a 1 day365; c_min_update = a 2 day365;
    c_max_wf = a 3 y10; c_max_wfc = a 4 y10; c_max_uf = a 5 y10; c_max_ufc = a 6 y10 }

(* events of the choice-driven model; cs = the choices of this op (to name the entry lost at FUEL) *)
let show_aevs top evs cs = match evs, top with
  | [EOut o], Basic _ -> show_out o
  | _ ->
    let fired = ref 0 in
    let items = List.filter_map (function
      | EFire (e, _) -> incr fired; Some (string_of_int (int_of_nat e))
      | EOut OOk -> None
      | EOut o -> Some (show_out o)
      | EFuel -> Some ("FUEL:" ^ (match List.nth_opt cs !fired with Some e -> string_of_int (int_of_nat e) | None -> "?"))
      | EBad e -> Some ("BAD-CHOICE:" ^ string_of_int (int_of_nat e))
      | EStuck -> Some "STOPPED-WHILE-DUE"
      | ELoop (t, n, r) -> Some ("th=" ^ string_of_z t ^ " sc=" ^ string_of_z n ^ " r=" ^ string_of_z r)) evs in
    (match top with Loop _ -> "L[" | _ -> "P[") ^ String.concat " " items ^ "]"

let parse_common hd mask scr ops =
  let (n, k) = (match split_ws hd with [n; k] -> (int_of_string n, int_of_string k) | _ -> failwith "head") in
  let mask = String.trim mask in
  let valids = List.init n (fun i -> if mask = "-" then true else mask.[i] = '1') in
  let tbl = Array.make n [] in
  List.iter (fun sc -> match String.index_opt sc ':' with
    | Some i -> let e = int_of_string (String.trim (String.sub sc 0 i)) in
                let body = String.sub sc (i + 1) (String.length sc - i - 1) in
                tbl.(e) <- List.map (fun o -> parse_bop (split_ws o)) (split_list ',' body)
    | None -> failwith "script") (split_list ';' scr);
  let env = { e_scr = Array.to_list tbl; e_valid = valids; e_fuel = nat_of_int k; e_foreign = [] } in
  let ops2 = List.map (fun o -> match (String.trim o).[0] with
    | 'X' | 'Y' | 'Z' -> parse_op2 o | _ -> OnA (parse_op o)) (split_list ',' ops) in
  (n, env, ops2)

(* the array-heap model of the current code's tie-breaking policy (Model.v) *)
let concrete_line n env ops2 =
  let ((s, sb), outs) = run2 env (init (nat_of_int n), init (nat_of_int n)) ops2 in
  let toks = List.map2 (fun o evs -> match o with OnA o -> show_evs o evs | OnB b -> show_evs (Basic b) evs) ops2 outs in
  let sched = List.filter_map (fun e -> match due_of s (nat_of_int e), due_of sb (nat_of_int e) with
    | Some d, _ | None, Some d -> Some (Printf.sprintf "%d:%s" e (string_of_z d)) | None, None -> None) (List.init n (fun i -> i)) in
  let hp = List.map (fun h -> string_of_z h.h_time ^ ":" ^
    (match h.h_entry with Some e -> string_of_int (int_of_nat e) | None -> "-")) s.heap in
  String.concat " " toks ^ " | S[" ^ String.concat " " sched ^ "] H[" ^ String.concat " " hp ^ "]"

(* the choice-driven model (AModel.v); choices = one group per top-level op *)
let abstract_line n env ops2 choices =
  let rec zip os cs = match os, cs with
    | [], _ -> [] | o :: r, [] -> (o, []) :: zip r [] | o :: r, c :: cr -> (o, c) :: zip r cr in
  let opcs = zip ops2 choices in
  let ((a, ab), outs) = arun2 consts env (ainit (nat_of_int n), ainit (nat_of_int n)) opcs in
  let toks = List.map2 (fun (o, cs) evs -> match o with OnA o -> show_aevs o evs cs | OnB b -> show_aevs (Basic b) evs cs) opcs outs in
  let nth_opt l i = match List.nth_opt l i with Some x -> x | None -> None in
  let sched = List.filter_map (fun e -> match nth_opt a.a_due e, nth_opt ab.a_due e with
    | Some d, _ | None, Some d -> Some (Printf.sprintf "%d:%s" e (string_of_z d)) | None, None -> None) (List.init n (fun i -> i)) in
  String.concat " " toks ^ " | S[" ^ String.concat " " sched ^ "]"

let () = each_line (fun line ->
  match String.split_on_char '|' line with
  | [hd; mask; scr; ops] ->
    let (n, env, ops2) = parse_common hd mask scr ops in
    concrete_line n env ops2
  | [hd; mask; scr; ops; ch] ->
    (* 5th section: the implementation's firing sequence per top-level op: groups separated by ';' *)
    let (n, env, ops2) = parse_common hd mask scr ops in
    let choices = List.map (fun g -> List.map (fun x -> nat_of_int (int_of_string x)) (split_ws g))
                    (String.split_on_char ';' ch) in
    let al = abstract_line n env ops2 choices in
    let cl = (try concrete_line n env ops2 with _ -> "CONCRETE-MODEL-ERROR") in
    al ^ " || " ^ cl
  | _ -> "BADCASE")
