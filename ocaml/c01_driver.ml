(* C01 model driver (shape A: acceptor).  Input line = case header + the events RECORDED from the implementation:
     plen=<n> total=<n> seed=<n> have=<01..> ... | ev ev ev ...
   Events: see harness/c01.cc.  The Insert / Release / New-piece events (internal freedom of the delegator, timers)
   are reconstructed here: at every S:<snapshot> the model's queued sets are reconciled with the snapshot through
   EIns / ERel / ENew (each must be ACCEPTED), after which the rendered model state must EQUAL the snapshot text.
   Output:  ACCEPT n=<events> syn=<reconstructed events> lc=<leader changes> rc=<retry copies> snaps=<compared>
        or  REJECT <position> <event> <reason>      (a broken correspondence)                                   *)
let rec ipos p = match p with XH -> 1 | XO q -> 2 * ipos q | XI q -> 2 * ipos q + 1
let in_ x = match x with N0 -> 0 | Npos p -> ipos p
let ni = n_of_int

let content_byte seed g =
  let x = (g + 1000003 * seed) land 0xffffffff in
  let h = (x * 2654435761) land 0xffffffff in
  ((h lsr 24) lxor (x land 0xff)) land 0xff

(* ---- SHA-1 (FIPS 180-4) over a byte list; independent of OpenSSL and of libtorrent ---- *)
let sha1_ints (msg : int array) : int array =
  let m32 = 0xffffffff in
  let rol x k = ((x lsl k) lor (x lsr (32 - k))) land m32 in
  let len = Array.length msg in
  let padlen = let r = (len + 9) mod 64 in if r = 0 then len + 9 else len + 9 + (64 - r) in
  let b = Array.make padlen 0 in
  Array.blit msg 0 b 0 len;
  b.(len) <- 0x80;
  let bits = len * 8 in
  for i = 0 to 7 do b.(padlen - 1 - i) <- (bits lsr (8 * i)) land 0xff done;
  let h0 = ref 0x67452301 and h1 = ref 0xEFCDAB89 and h2 = ref 0x98BADCFE and h3 = ref 0x10325476 and h4 = ref 0xC3D2E1F0 in
  let w = Array.make 80 0 in
  for blk = 0 to padlen / 64 - 1 do
    for t = 0 to 15 do
      let o = blk * 64 + 4 * t in
      w.(t) <- (b.(o) lsl 24) lor (b.(o + 1) lsl 16) lor (b.(o + 2) lsl 8) lor b.(o + 3)
    done;
    for t = 16 to 79 do w.(t) <- rol (w.(t - 3) lxor w.(t - 8) lxor w.(t - 14) lxor w.(t - 16)) 1 done;
    let a = ref !h0 and bb = ref !h1 and c = ref !h2 and d = ref !h3 and e = ref !h4 in
    for t = 0 to 79 do
      let f, k =
        if t < 20 then ((!bb land !c) lor ((lnot !bb) land m32 land !d), 0x5A827999)
        else if t < 40 then (!bb lxor !c lxor !d, 0x6ED9EBA1)
        else if t < 60 then ((!bb land !c) lor (!bb land !d) lor (!c land !d), 0x8F1BBCDC)
        else (!bb lxor !c lxor !d, 0xCA62C1D6) in
      let tmp = (rol !a 5 + f + !e + k + w.(t)) land m32 in
      e := !d; d := !c; c := rol !bb 30; bb := !a; a := tmp
    done;
    h0 := (!h0 + !a) land m32; h1 := (!h1 + !bb) land m32; h2 := (!h2 + !c) land m32;
    h3 := (!h3 + !d) land m32; h4 := (!h4 + !e) land m32
  done;
  let out = Array.make 20 0 in
  List.iteri (fun i h -> for j = 0 to 3 do out.(4 * i + j) <- (h lsr (24 - 8 * j)) land 0xff done) [!h0; !h1; !h2; !h3; !h4];
  out

let sha1_n (l : n list) : n list =
  let a = Array.of_list (List.map in_ l) in
  Array.to_list (Array.map (fun x -> byte_tab.(x)) (sha1_ints a))

let kv tok = match String.index_opt tok '=' with
  | Some i -> (String.sub tok 0 i, String.sub tok (i + 1) (String.length tok - i - 1))
  | None -> (tok, "")

(* ---- rendering of the model state in the snapshot format of harness/c01.cc ---- *)
let sn x = string_of_int (in_ x)
let render np (s : state) : string =
  let b = Buffer.create 256 in
  Buffer.add_string b "c=";
  for i = 0 to np - 1 do Buffer.add_char b (if memN (ni i) s.completed then '1' else '0') done;
  Buffer.add_string b ";h=";
  Buffer.add_string b (String.concat "," (List.map string_of_int (List.sort compare (List.map in_ s.hashing))));
  Buffer.add_string b ";L=";
  let pieces = List.sort compare (List.map (fun a -> in_ (fst a)) s.attempts) in
  let show_block (x : block) =
    let ld = match x.b_leader with Some q -> sn q | None -> "-" in
    let q = String.concat "," (List.sort compare (List.map sn x.b_queued)) in
    let t = String.concat "," (List.map (fun t -> Printf.sprintf "%s.%s.%d" (sn t.t_peer)
              (match t.t_state with TLeader -> "L" | TNotLeader -> "N" | TErased -> "E") (in_ t.t_pos)) (x.b_stale @ x.b_trans)) in
    let f = String.concat "," (List.map (fun e -> sn (snd e)) x.b_failed) in
    let c = match x.b_cur with Some c -> sn c | None -> "-" in
    Printf.sprintf "%s@%d|q=%s|t=%s|f=%s^%s" ld (in_ (leader_pos x)) q t f c in
  let show_piece i =
    let bl = List.filter (fun x -> in_ x.b_idx = i) s.blocks in
    let bl = List.sort (fun x y -> compare (in_ x.b_no) (in_ y.b_no)) bl in
    let fin = List.length (List.filter finished bl) in
    Printf.sprintf "%d/%d/%d[%s]" i (in_ (attempt_of s (ni i))) fin (String.concat ";" (List.map show_block bl)) in
  Buffer.add_string b (String.concat "+" (List.map show_piece pieces));
  Buffer.add_string b ";cur=";
  let cs = List.sort (fun a c -> compare (in_ (fst a)) (in_ (fst c))) s.curs in
  Buffer.add_string b (String.concat "," (List.map (fun (p, c) -> match c with
      | CValid (i, k) -> Printf.sprintf "%s:v%s.%s" (sn p) (sn i) (sn k)
      | CSkip (pos, len) -> Printf.sprintf "%s:s%s/%s" (sn p) (sn pos) (sn len)) cs));
  Buffer.add_string b ";conn=";
  Buffer.add_string b (String.concat "," (List.map string_of_int (List.sort compare (List.map in_ s.conns))));
  Buffer.add_string b ";fc=";
  let fc = List.sort compare (List.filter (fun (_, c) -> c > 0) (List.map (fun (p, c) -> (in_ p, in_ c)) s.failc)) in
  Buffer.add_string b (String.concat "," (List.map (fun (p, c) -> Printf.sprintf "%d:%d" p c) fc));
  Buffer.contents b

(* snapshot -> [(piece, [(block no, queued peers)])] *)
let parse_snapshot_queues (snap : string) : (int * (int * string list) list) list =
  let fields = String.split_on_char ';' snap in
  (* the L= field itself contains ';' between blocks: re-join everything between "L=" and "cur=" *)
  let rec collect acc inl = function
    | [] -> List.rev acc
    | f :: rest ->
        if String.length f >= 2 && String.sub f 0 2 = "L=" then collect (String.sub f 2 (String.length f - 2) :: acc) true rest
        else if String.length f >= 4 && String.sub f 0 4 = "cur=" then List.rev acc
        else if inl then collect (f :: acc) true rest
        else collect acc false rest in
  let l = String.concat ";" (collect [] false fields) in
  if l = "" then [] else
  List.map (fun pc ->
    let br = String.index pc '[' in
    let hd = String.sub pc 0 br in
    let idx = int_of_string (List.hd (String.split_on_char '/' hd)) in
    let body = String.sub pc (br + 1) (String.length pc - br - 2) in
    let blks = String.split_on_char ';' body in
    (idx, List.mapi (fun k blk ->
       let parts = String.split_on_char '|' blk in
       let q = List.find (fun x -> String.length x >= 2 && String.sub x 0 2 = "q=") parts in
       let q = String.sub q 2 (String.length q - 2) in
       (k, if q = "" then [] else String.split_on_char ',' q)) blks)) (String.split_on_char '+' l)

exception Reject of string

let () = each_line (fun line ->
  match String.index_opt line '|' with
  | None -> "BADLINE"
  | Some bar ->
      let hd = String.sub line 0 bar and evs = String.sub line (bar + 1) (String.length line - bar - 1) in
      let kvs = List.map kv (split_ws hd) in
      let get k = List.assoc k kvs in
      let plen = int_of_string (get "plen") and total = int_of_string (get "total") in
      let seed = int_of_string (get "seed") and have = get "have" in
      let np = (total + plen - 1) / plen in
      (* huge sparse layout: only the listed pieces are materialised in the model store (the others are never listed) *)
      let big = (try List.map int_of_string (List.filter (fun x -> x <> "") (String.split_on_char ',' (List.assoc "big" kvs))) with Not_found -> []) in
      let is_big = List.mem_assoc "big" kvs in
      let have = if is_big then String.make np '0' else have in
      let psz i = min plen (total - i * plen) in
      let content i = List.init (psz i) (fun k -> byte_tab.(content_byte seed (i * plen + k))) in
      let contents = Array.init np (fun i -> if is_big && not (List.mem i big) then [] else content i) in
      let expected_tab = Array.map sha1_n contents in
      let none = not (String.contains have '1') in
      let pre = (try int_of_string (List.assoc "pre" kvs) with Not_found -> 0) in
      let st0 = List.init np (fun i ->
        if is_big && not (List.mem i big) then []
        else if have.[i] = '1' then contents.(i)
        else if none then List.init (psz i) (fun _ -> byte_tab.(if pre > 0 then 0xee else 0))
        else (match contents.(i) with x :: r -> byte_tab.((in_ x) lxor 0x5a) :: r | [] -> [])) in
      let c0 = List.filter_map (fun i -> if have.[i] = '1' then Some (ni i) else None) (List.init np (fun i -> i)) in
      let expected i = let k = in_ i in if k < np then expected_tab.(k) else [] in
      let psize i = let k = in_ i in if k < np then ni (psz k) else N0 in
      (* rep=1: the tree has the stale-transfer repair (decided by the harness probe, passed on by the glue) *)
      let repaired = (try List.assoc "rep" kvs = "1" with Not_found -> false) in
      let acc = accept sha1_n expected (ni np) psize repaired in
      let s = ref (init st0 c0) in
      let n = ref 0 and syn = ref 0 and lc = ref 0 and rc = ref 0 and snaps = ref 0 in
      let step tok e =
        if fatal !s e && (match acc !s e with Some _ -> true | None -> false) then
          raise (Reject (Printf.sprintf "%d %s FATAL: an internal_error check of the modelled code would fire here" !n tok));
        match acc !s e with
        | Some s' ->
            (match e with
             | EData (_, _) ->
                 List.iter2 (fun (x : block) (y : block) ->
                   match x.b_leader, y.b_leader with
                   | Some a, Some b when in_ a <> in_ b && List.length x.b_trans = List.length y.b_trans -> incr lc
                   | _ -> ()) (List.filter (fun (x : block) -> List.exists (fun (y : block) -> y.b_idx = x.b_idx && y.b_no = x.b_no) s'.blocks) !s.blocks)
                        (List.filter (fun (y : block) -> List.exists (fun (x : block) -> y.b_idx = x.b_idx && y.b_no = x.b_no) !s.blocks) s'.blocks)
             | EHashDone (i, false) -> if piece !s i <> piece s' i then incr rc
             | _ -> ());
            s := s'
        | None -> raise (Reject (Printf.sprintf "%d %s not accepted in state %s" !n tok (render np !s))) in
      let reconcile snap =
        let want = parse_snapshot_queues snap in
        List.iter (fun (idx, blks) ->
          if not (listed !s (ni idx)) then begin incr syn; step (Printf.sprintf "N:%d" idx) (ENew (ni idx)) end;
          List.iter (fun (k, q) ->
            let cur = match List.find_opt (fun (x : block) -> in_ x.b_idx = idx && in_ x.b_no = k) !s.blocks with
              | Some x -> List.map sn x.b_queued | None -> [] in
            List.iter (fun p -> if not (List.mem p q) then begin
                incr syn; step (Printf.sprintf "R:%s:%d:%d" p idx k) (ERel (n_of_string p, ni idx, ni k)) end) cur;
            List.iter (fun p -> if not (List.mem p cur) then begin
                incr syn; step (Printf.sprintf "I:%s:%d:%d" p idx k) (EIns (n_of_string p, ni idx, ni k)) end) q) blks) want;
        (* failed counters: DownloadMain::receive_corrupt_chunk calls *)
        (match List.find_opt (fun f -> String.length f >= 3 && String.sub f 0 3 = "fc=") (String.split_on_char ';' snap) with
         | Some f when String.length f > 3 ->
             List.iter (fun pc -> match String.split_on_char ':' pc with
               | [p; c] ->
                   let have () = (match List.find_opt (fun (q, _) -> sn q = p) !s.failc with Some (_, k) -> in_ k | None -> 0) in
                   while have () < int_of_string c do incr syn; step ("!:" ^ p) (ECorrupt (n_of_string p)) done
               | _ -> ()) (String.split_on_char ',' (String.sub f 3 (String.length f - 3)))
         | _ -> ());
        incr snaps;
        let r = render np !s in
        if r <> snap then raise (Reject (Printf.sprintf "%d S: model state differs from the snapshot: model %s  impl %s" !n r snap)) in
      (try
        List.iter (fun tok ->
          incr n;
          try (match String.split_on_char ':' tok with
          | ["-"] -> ()
          | ["C"; p] -> step tok (EConn (n_of_string p))
          | ["D"; p] -> step tok (EDisc (n_of_string p))
          | ["P"; p; i; off; len; st] -> step tok (EPiece (n_of_string p, n_of_string i, n_of_string off, n_of_string len, st = "1"))
          | ["B"; p; h] -> step ("B:" ^ p ^ ":<" ^ string_of_int (String.length h / 2) ^ " bytes>") (EData (n_of_string p, bytes_of_hex h))
          | ["K"; p] -> step tok (EChoke (n_of_string p))
          | ["U"; p] -> step tok (EUnchoke (n_of_string p))
          | ["Q"; i] -> step tok (EHashQueued (n_of_string i))
          | ["H"; i; v] -> step tok (EHashDone (n_of_string i, v = "ok"))
          | ["M"; i] -> step tok (EMark (n_of_string i))
          | ["V"; i] -> step tok (EHave (n_of_string i))
          | ["F"] -> step tok EDone
          | ["X"; i; h] -> step tok (EProbe (n_of_string i, bytes_of_hex h))
          | "S" :: rest -> reconcile (String.concat ":" rest)
          | _ -> raise (Reject (Printf.sprintf "%d %s unknown event" !n tok)))
          with Invalid_argument m | Failure m -> raise (Reject (Printf.sprintf "%d %s malformed event (%s)" !n (if String.length tok > 400 then String.sub tok 0 400 else tok) m))) (split_ws evs);
        Printf.sprintf "ACCEPT n=%d syn=%d lc=%d rc=%d snaps=%d" !n !syn !lc !rc !snaps
      with Reject m -> "REJECT " ^ m))
