(* C04 model driver (acceptor).  Input line = the implementation harness's output line
     ev=<tok,tok,...> done=.. amb=.. || ...
   (see harness/c04.cc for the token grammar).  Output:
     ACCEPT <n events> final=<summary>     every event accepted by coq/C04/Model.v `accept`
     REJECT@<k>:<token>                    first rejected event
     NOTRACE                               the line carries no trace (harness error) *)
let bits_of s = List.init (String.length s) (fun i -> s.[i] = '1')

let parse_ent s = match String.split_on_char '.' s with
  | [i; o; v; st] -> { e_i = n_of_string i; e_o = n_of_string o; e_valid = (v = "1"); e_stalled = (st = "1") }
  | _ -> failwith ("entry " ^ s)
let parse_ents s = if s = "" then [] else List.map parse_ent (String.split_on_char ';' s)

let nat_of_string s = nat_of_int (int_of_string s)

let parse_ev tok =
  match String.split_on_char ':' tok with
  | ["J"; p; b] -> Join (nat_of_string p, bits_of b)
  | ["H"; p; i] -> Have (nat_of_string p, n_of_string i)
  | ["K"; p] -> Choke (nat_of_string p)
  | ["U"; p] -> Unchoke (nat_of_string p)
  | ["P"; p; i; o; l] -> Piece (nat_of_string p, n_of_string i, n_of_string o, n_of_string l)
  | ["PB"; p; i; o; l] -> PieceBegin (nat_of_string p, n_of_string i, n_of_string o, n_of_string l)
  | ["PE"; p] -> PieceEnd (nat_of_string p)
  | ["X"; p] -> Disc (nat_of_string p)
  | ["A"; s] -> Advance (n_of_string s)
  | ["W"; b] -> Wanted (bits_of b)
  | ["I"; p] -> SInterested (nat_of_string p)
  | ["N"; p] -> SNotInterested (nat_of_string p)
  | ["R"; p; i; o; l] -> SRequest (nat_of_string p, n_of_string i, n_of_string o, n_of_string l)
  | ["C"; p; i; o; l] -> SCancel (nat_of_string p, n_of_string i, n_of_string o, n_of_string l)
  | ["F"; i] -> Fin (n_of_string i)
  | ["E"] -> Endgame
  | ["DC"; p] -> DropChoked (nat_of_string p)
  | ["DU"; p; n] -> DropUnordered (nat_of_string p, nat_of_string n)
  | ["ST"; p; t] -> StallTick (nat_of_string p, t = "1")
  | ["Z"; p; u; rest] ->
      (match String.split_on_char '/' rest with
       | [q; un; s; c; t; fl] ->
           SnapConn (nat_of_string p, u = "1", parse_ents q, parse_ents un, parse_ents s, parse_ents c,
                     (if t = "" then None else Some (parse_ent t)), fl.[0] = '1', fl.[1] = '1', fl.[2] = '1')
       | _ -> failwith ("snap " ^ tok))
  | ["LI"; p] -> LoseInterest (nat_of_string p)
  | ["QC"; p] -> QueueChoke (nat_of_string p)
  | ["QU"; p] -> QueueUnchoke (nat_of_string p)
  | ["Y"; a; act; comp] ->
      SnapGlobal (a = "1", (if act = "" then [] else List.map n_of_string (String.split_on_char '.' act)), bits_of comp)
  | _ -> failwith ("event " ^ tok)

let () = each_line (fun line ->
  let toks = split_ws line in
  match List.find_opt (fun t -> String.length t > 3 && String.sub t 0 3 = "ev=") toks with
  | None -> "NOTRACE"
  | Some t ->
      let evs = String.split_on_char ',' (String.sub t 3 (String.length t - 3)) in
      (match evs with
       | hd :: rest ->
           (match String.split_on_char ':' hd with
            | ["T"; plen; total; comp; wanted] ->
                let s0 = yinit (n_of_string plen) (n_of_string total) (bits_of comp) (bits_of wanted) in
                let arr = Array.of_list rest in
                let events = List.map parse_ev rest in
                (match yrun_ix s0 events O with
                 | Inl k -> Printf.sprintf "REJECT@%d:%s" (int_of_nat k) arr.(int_of_nat k)
                 | Inr x ->
                     let s = x.y_x.x_s in
                     Printf.sprintf "ACCEPT %d final=%s/%d/%s" (List.length events)
                       (String.concat "" (List.map (fun b -> if b then "1" else "0") s.s_completed))
                       (List.length s.s_active) (if s.s_aggr then "1" else "0"))
            | _ -> "NOTRACE")
       | [] -> "NOTRACE"))
