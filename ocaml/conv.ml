(* Conversions between the extracted inductive numbers (positive / n / z / nat of the model
   module opened before this text) and OCaml ints / decimal strings (via zarith, used only for
   I/O in the driver, never inside the model). *)
let rec pos_of_z (i : BZ.t) : positive =
  if BZ.equal i BZ.one then XH
  else if BZ.is_even i then XO (pos_of_z (BZ.shift_right i 1))
  else XI (pos_of_z (BZ.shift_right i 1))
let n_of_zt (i : BZ.t) : n = if BZ.sign i = 0 then N0 else Npos (pos_of_z i)
let z_of_zt (i : BZ.t) : z = if BZ.sign i = 0 then Z0 else if BZ.sign i > 0 then Zpos (pos_of_z i) else Zneg (pos_of_z (BZ.neg i))
let rec zt_of_pos (p : positive) : BZ.t = match p with
  | XH -> BZ.one | XO q -> BZ.shift_left (zt_of_pos q) 1 | XI q -> BZ.succ (BZ.shift_left (zt_of_pos q) 1)
let zt_of_n = function N0 -> BZ.zero | Npos p -> zt_of_pos p
let zt_of_z = function Z0 -> BZ.zero | Zpos p -> zt_of_pos p | Zneg p -> BZ.neg (zt_of_pos p)
let n_of_int i = n_of_zt (BZ.of_int i)
let int_of_n x = BZ.to_int (zt_of_n x)
let z_of_int i = z_of_zt (BZ.of_int i)
let int_of_z x = BZ.to_int (zt_of_z x)
let n_of_string s = n_of_zt (BZ.of_string s)
let z_of_string s = z_of_zt (BZ.of_string s)
let string_of_n x = BZ.to_string (zt_of_n x)
let string_of_z x = BZ.to_string (zt_of_z x)
let nat_of_int i = let rec go k acc = if k = 0 then acc else go (k - 1) (S acc) in go i O
let int_of_nat x = let rec go x acc = match x with O -> acc | S y -> go y (acc + 1) in go x 0
(* bytes as list of n <-> lowercase hex; "-" is the empty string *)
let byte_tab = Array.init 256 n_of_int
let bytes_of_hex (h : string) : n list =
  if h = "-" then [] else begin
    let len = String.length h / 2 in
    let rec go i acc = if i < 0 then acc else go (i - 1) (byte_tab.(int_of_string ("0x" ^ String.sub h (2 * i) 2)) :: acc) in
    go (len - 1) [] end
let hex_of_bytes (l : n list) : string =
  if l = [] then "-" else begin
    let b = Buffer.create 64 in
    List.iter (fun x -> Buffer.add_string b (Printf.sprintf "%02x" (int_of_n x))) l;
    Buffer.contents b end
let split_ws s = List.filter (fun x -> x <> "") (String.split_on_char ' ' s)
let each_line f =
  (try while true do
    let line = input_line stdin in
    let out = (try f line with
               | Stack_overflow -> "MODEL-STACK-OVERFLOW"
               | Failure m -> "MODEL-ERROR " ^ m
               | Not_found -> "MODEL-ERROR not_found"
               | Invalid_argument m -> "MODEL-ERROR " ^ m) in
    print_string out; print_char '\n'
  done with End_of_file -> ());
  flush stdout
