(* C17 model driver. Case line:
     <nthreads> <nids> / body ; body ; ... / prog ; prog ; ... / <schedule digits>
   cmd tokens: P:<tgt>:<n|i>:<id|->:<body>  C:<id>  W:<id>  X:<id>  D:<0|1>
   Output: S <step>* | F <finished bits> C <crashed> Q <qn.qi per thread> H <hasn hasi per thread> W <words>
   step = <t>:<label>:<w0,w1,..>:<intr bits>[:ev+ev..]   or <t>:-  (not enabled)                   *)
let split_on c s = List.map String.trim (String.split_on_char c s)
let parse_cmd tok =
  match String.split_on_char ':' tok with
  | ["P"; tgt; k; id; b] ->
      Post (nat_of_int (int_of_string tgt), (if k = "i" then KIntr else KNormal),
            (if id = "-" then None else Some (nat_of_int (int_of_string id))), nat_of_int (int_of_string b))
  | ["C"; i] -> Cancel (nat_of_int (int_of_string i))
  | ["W"; i] -> CancelWait (nat_of_int (int_of_string i))
  | ["X"; i] -> CancelWait2 (nat_of_int (int_of_string i))
  | ["D"; o] -> Dispatch (o = "1", [])
  | ["D"; o; chs] ->
      let b c = (c = '1') in
      Dispatch (o = "1", List.map (fun x -> { ch_ti = b x.[0]; ch_tn = b x.[1]; ch_hn = b x.[2]; ch_hi = b x.[3] })
                           (List.filter (fun x -> String.length x = 4) (String.split_on_char ',' chs)))
  | ["L"] -> PollOnce
  | _ -> failwith ("cmd " ^ tok)
let parse_list s = List.map parse_cmd (split_ws s)
let label_s = function
  | L_cb_fetch_add -> "cb_fetch_add" | L_cb_lock -> "cb_lock" | L_cb_fetch_sub -> "cb_fetch_sub"
  | L_cb_interrupt -> "cb_interrupt" | L_cbn_lock -> "cbn_lock" | L_cc_fetch_add -> "cc_fetch_add"
  | L_cw_load -> "cw_load" | L_cw_wait -> "cw_wait" | L_cw_cas -> "cw_cas" | L_dl_load -> "dl_load"
  | L_dl_cas -> "dl_cas" | L_dl_fetch_add -> "dl_fetch_add" | L_dl_fetch_and -> "dl_fetch_and"
  | L_dl_wload -> "dl_wload" | L_dl_wwait -> "dl_wwait" | L_fx_wake -> "fx_wake" | L_pc_store -> "pc_store" | L_pc_lock -> "pc_lock"
  | L_pc_fetch_add -> "pc_fetch_add" | L_pc_fetch_sub -> "pc_fetch_sub" | L_pc_skip_sub -> "pc_skip_sub"
  | L_run -> "run" | L_ret -> "ret" | L_nop -> "nop" | L_poll_enter -> "poll_enter"
  | L_poll_wait_short -> "poll_wait_short" | L_poll_wait_full -> "poll_wait_full" | L_poll_leave -> "poll_leave"
let us (a, b) = Printf.sprintf "%d.%d" (int_of_nat a) (int_of_nat b)
let ev_s = function
  | EvPost (u, tgt, k, oid) ->
      Some (Printf.sprintf "p%s>%d%s%s" (us u) (int_of_nat tgt) (match k with KIntr -> "i" | KNormal -> "n")
              (match oid with None -> "-" | Some i -> string_of_int (int_of_nat i)))
  | EvPostRet u -> Some ("r" ^ us u)
  | EvRun (u, t, _, _) -> Some (Printf.sprintf "R%s@%d" (us u) (int_of_nat t))
  | EvRet u -> Some ("E" ^ us u)
  | EvCwBegin (t, i) -> Some (Printf.sprintf "b%di%d" (int_of_nat t) (int_of_nat i))
  | EvCwRet (t, i, _) -> Some (Printf.sprintf "e%di%d" (int_of_nat t) (int_of_nat i))
  | EvPushed _ | EvIntr _ | EvSkip _ -> None
let rec take n l = if n <= 0 then [] else match l with [] -> [] | x :: r -> x :: take (n - 1) r
let words c = String.concat "," (List.map (fun w -> string_of_n (word_N w)) c.ids)
let bits f c = String.concat "" (List.map (fun th -> if f th then "1" else "0") c.threads)
(* ENUM <limit> / bodies / progs : every maximal interleaving (only enabled threads are chosen) *)
let enum limit c0 =
  let out = ref [] and n = ref 0 and complete = ref true in
  let nt = List.length c0.threads in
  let rec go c acc =
    if !n >= limit then complete := false else begin
      let any = ref false in
      for ti = 0 to nt - 1 do
        match step c (nat_of_int ti) with
        | Some c' -> any := true; go c' (Char.chr (48 + ti) :: acc)
        | None -> ()
      done;
      if not !any then begin
        incr n;
        out := (String.init (List.length acc) (fun i -> List.nth (List.rev acc) i)) :: !out
      end
    end in
  go c0 [];
  (if !complete then "COMPLETE " else "PARTIAL ") ^ String.concat " " (List.rev !out)

let () = each_line (fun line ->
  match split_on '/' line with
  | [hd; bds; progs] when String.length hd > 4 && String.sub hd 0 4 = "ENUM" ->
      let (limit, nids) = (match split_ws hd with [_; l; _; b] -> (int_of_string l, int_of_string b) | _ -> failwith "hd") in
      let bodies = if String.trim bds = "" then [] else List.map parse_list (split_on ';' bds) in
      let progs = List.map parse_list (split_on ';' progs) in
      enum limit (init progs (nat_of_int nids) bodies)
  | [hd; bds; progs; sched] ->
      let nids = (match split_ws hd with [_; b] -> int_of_string b | _ -> failwith "hd") in
      let bodies = if String.trim bds = "" then [] else List.map parse_list (split_on ';' bds) in
      let progs = List.map parse_list (split_on ';' progs) in
      let c = ref (init progs (nat_of_int nids) bodies) in
      let b = Buffer.create 1024 in
      Buffer.add_string b "S";
      String.iter (fun ch ->
        if ch >= '0' && ch <= '9' then begin
          let ti = Char.code ch - 48 in
          let t = nat_of_int ti in
          match label_at !c t, step !c t with
          | Some l, Some c' ->
              let nlog = List.length c'.log - List.length !c.log in
              let evs = List.filter_map ev_s (List.rev (take nlog c'.log)) in
              Buffer.add_string b (Printf.sprintf " %d:%s:%s:%s:%s" ti (label_s l) (words c') (String.concat "" (List.map (fun b -> string_of_int ((if b.pol then 1 else 0) + (if b.intr then 2 else 0))) c'.boxes))
                (String.concat "," (List.map (fun b -> Printf.sprintf "%d.%d.%s%s" (List.length b.qn) (List.length b.qi) (if b.hasn then "1" else "0") (if b.hasi then "1" else "0")) c'.boxes)));
              if evs <> [] then Buffer.add_string b (":" ^ String.concat "+" evs);
              c := c'
          | _ -> Buffer.add_string b (Printf.sprintf " %d:-" ti)
        end) sched;
      let c = !c in
      Buffer.add_string b (Printf.sprintf " | F %s C %d Q %s H %s W %s"
        (bits (fun th -> th.todo = []) c) (if c.crashed then 1 else 0)
        (String.concat "," (List.map (fun b -> Printf.sprintf "%d.%d" (List.length b.qn) (List.length b.qi)) c.boxes))
        (String.concat "," (List.map (fun b -> (if b.hasn then "1" else "0") ^ (if b.hasi then "1" else "0")) c.boxes))
        (words c));
      Buffer.contents b
  | _ -> "BADCASE")
