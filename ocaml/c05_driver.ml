(* C05 model driver.  Case line:
     plen=<n> total=<n> done=<01..> seed=<n> [enc=1] | op op ...
   enc=1: RC4 connection. The model is run with the all-zero keystream, i.e. it prints the stream
   as the peer sees it AFTER decrypting with its own (independent) RC4; by theorem
   piece_bytes_exact_rc4 the wire bytes for any keystream ks are that stream XOR ks at consecutive
   positions. enc=2 (MSE handshake, plaintext stream selected) is a plain stream for the model.
   header also: q=<queue limit> ll=<request length limit> ei=<0|1> eu=<0|1>  -- the policy PROBED on the
   implementation (props/c05.py inserts it; defaults 2048 131072 0 0)
   op ::= R:i:b:l | C:i:b:l | D:0 | D:1 | W:k | W:inf | K (keep-alive tick)
        | T:on:min:nq:un:uu (throttle state read from the real ThrottleList; inserted by the glue from the
          implementation's output) | Q:n, A:ms (harness only; ignored here)
   Output: closed=<0|1> n=<stream bytes> md5=<hex> msgs=<C0|C1|P:i:b:l,...|-> snaps=<one per W op;...|-> q=<final queue|-|X>
   snapshot after each W op: <I|M|P>/<choked><send_choked>/<queue length>/<cur i:o:l>[/e<encrypt buffer remaining>:<size_end>]  or X when closed *)
let rec ipos p = match p with XH -> 1 | XO q -> 2 * ipos q | XI q -> 2 * ipos q + 1
let in_ x = match x with N0 -> 0 | Npos p -> ipos p

let content_byte seed g =
  let x = (g + 1000003 * seed) land 0xffffffff in
  let h = (x * 2654435761) land 0xffffffff in
  ((h lsr 24) lxor (x land 0xff)) land 0xff

let kv tok = match String.index_opt tok '=' with
  | Some i -> (String.sub tok 0 i, String.sub tok (i + 1) (String.length tok - i - 1))
  | None -> (tok, "")

let parse_piece a b c = { p_index = n_of_string a; p_off = n_of_string b; p_len = n_of_string c }

let parse_op tok = match String.split_on_char ':' tok with
  | ["R"; a; b; c] -> RecvRequest (parse_piece a b c)
  | ["C"; a; b; c] -> RecvCancel (parse_piece a b c)
  | ["D"; "0"] -> Decide false
  | ["D"; "1"] -> Decide true
  | ["N"] -> Decide true          (* the peer's NOT_INTERESTED: the choke_queue chokes it at once *)
  | ["W"; "inf"] -> WriteReady (n_of_string "1099511627776")
  | ["W"; k] -> WriteReady (n_of_string k)
  | ["K"] -> KeepaliveTick
  | ["T"; o; mn; nq; un; uu] -> Throttle { t_on = (o = "1"); t_min = n_of_string mn; t_nq = n_of_string nq;
                                           t_un = n_of_string un; t_uu = n_of_string uu }
  | _ -> failwith ("op " ^ tok)
(* Q:<n> (the harness grants quota to the real throttle) and A:<ms> are not model ops: their effect
   reaches the model through the T: observation the glue inserts before the next W *)
let is_model_op tok = not (String.length tok > 1 && (tok.[0] = 'Q' || tok.[0] = 'A') && tok.[1] = ':')

let show_piece p = Printf.sprintf "%s:%s:%s" (string_of_n p.p_index) (string_of_n p.p_off) (string_of_n p.p_len)

let show_queue q = if q = [] then "-" else String.concat "," (List.map show_piece q)

let snap enc s =
  if s.closed then "X" else
  Printf.sprintf "%s/%d%d/%d/%s%s"  (* ...[/e<remaining>:<size_end>]/c<mapped chunk|->r<references> *)
    (match s.ws with Idle -> "I" | Msg -> "M" | WPiece -> "P")
    (if s.choked then 1 else 0) (if s.send_choked then 1 else 0)
    (List.length s.queue) (show_piece s.cur)
    ((if enc && s.ws = WPiece then Printf.sprintf "/e%d:%d" (List.length s.ebuf) (in_ s.eb_end) else "") ^
     (match s.upc with None -> "/c-r0" | Some i -> Printf.sprintf "/c%dr1" (in_ i)) ^
     (if s.tq.t_on then Printf.sprintf "/t%d:%d:%d" (in_ s.tq.t_nq) (in_ s.tq.t_un) (in_ s.tq.t_uu) else ""))

let () = each_line (fun line ->
  if String.length line >= 6 && String.sub line 0 6 = "PARAMS" then begin
    (* side conditions of the theorems, evaluated by the extracted params_ok on the probed policy *)
    let kvs = List.map kv (split_ws line) in
    let geti k = int_of_string (List.assoc k kvs) in
    let pol = { qlimit = n_of_int (geti "q"); lenlimit = n_of_int (geti "ll");
                eager_inv = geti "ei" = 1; eager_unv = geti "eu" = 1 } in
    if params_ok pol then "PARAMS-OK" else "PARAMS-BAD"
  end else
  match String.split_on_char '|' line with
  | [hd; ops] ->
      let kvs = List.map kv (split_ws hd) in
      let get k = List.assoc k kvs in
      let plen = int_of_string (get "plen") and total = int_of_string (get "total") in
      let seed = int_of_string (get "seed") and donebits = get "done" in
      let enc = (try List.assoc "enc" kvs = "1" with Not_found -> false) in
      let ks _ = N0 in
      let geti k d = (try int_of_string (List.assoc k kvs) with Not_found -> d) in
      let pol = { qlimit = n_of_int (geti "q" 2048); lenlimit = n_of_int (geti "ll" 131072);
                  eager_inv = geti "ei" 0 = 1; eager_unv = geti "eu" 0 = 1 } in
      let completed i = let j = in_ i in j < String.length donebits && donebits.[j] = '1' in
      let lay = { l_total = n_of_int total; l_plen = n_of_int plen; l_completed = completed } in
      let content i off = byte_tab.(content_byte seed (in_ i * plen + in_ off)) in
      let snaps = ref [] in
      let s = List.fold_left (fun s tok ->
          if not (is_model_op tok) then s else
          let o = parse_op tok in
          let s' = step lay content enc ks pol s o in
          (match o with WriteReady _ -> snaps := snap enc s' :: !snaps | _ -> ());
          s') init (split_ws ops) in
      let bytes = Buffer.create 65536 in
      List.iter (fun chunk -> List.iter (fun b -> Buffer.add_char bytes (Char.chr (in_ b))) chunk) (List.rev s.out);
      let md5 = Digest.to_hex (Digest.string (Buffer.contents bytes)) in
      let ms = List.rev_map (function MChoke c -> if c then "C1" else "C0" | MPiece p -> "P:" ^ show_piece p | MKeep -> "K") s.msgs in
      Printf.sprintf "closed=%d n=%d md5=%s msgs=%s snaps=%s q=%s"
        (if s.closed then 1 else 0) (Buffer.length bytes) md5
        (if ms = [] then "-" else String.concat "," ms)
        (if !snaps = [] then "-" else String.concat ";" (List.rev !snaps))
        (if s.closed then "X" else show_queue s.queue)
  | _ -> "BADCASE")
