(* C10 model driver.  L cases (see harness/c10.cc run_load) are modelled; T cases (two real lifetimes,
   real mtimes) are judged by the oracle only and answered with a fixed token. *)
let opened_state np nf = opened (nat_of_int np) (nat_of_int nf)
let bools_str l = String.concat "" (List.map (fun b -> if b then "1" else "0") l)

let split_on c s = String.split_on_char c s

(* ---- T cases: a session history, a save, a crash, perturbations, load + check — all on the model.
   Real mtimes are symbolic: every file has mtime 500 at the save; W makes it 507. Time in minutes. *)
let run_t line =
  match split_on '|' line with
  | [lay; miss; ops; pert] ->
    (match split_ws lay with
     | "T" :: pls :: lens ->
       let pl = int_of_string pls in
       let lens = List.map (fun s -> let n = String.length s in
                             if n > 0 && s.[n - 1] = 's' then int_of_string (String.sub s 0 (n - 1)) else int_of_string s) lens in
       let total = List.fold_left (+) 0 lens in
       let np = (total + pl - 1) / pl in
       let ilist s = if s = "-" || s = "" then [] else List.map int_of_string (split_on ',' s) in
       let missing = if String.trim miss = "*" then List.init np (fun i -> i) else ilist (String.trim miss) in
       let pt = split_ws pert in
       let lose = List.concat_map (fun t ->
           if String.length t > 5 && String.sub t 0 5 = "lose=" then begin
             let v = String.sub t 5 (String.length t - 5) in
             if v.[0] = '%' then (let k = int_of_string (String.sub v 1 (String.length v - 1)) in
                                  List.filter (fun i -> i mod k = 0) (List.init np (fun i -> i)))
             else ilist v end
           else []) pt in
       let pt = List.filter (fun t -> not (String.length t >= 5 && String.sub t 0 5 = "lose=")) pt in
       let resave = List.exists (fun t -> t = "resave" || t = "resave2") pt in
       let pt = List.filter (fun t -> t <> "resave" && t <> "resave2") pt in
       let disk = Array.init np (fun i -> not (List.mem i missing)) in       (* piece valid on disk *)
       let bits = ref (Some (Array.to_list disk)) in
       let active = ref false and opened = ref true and checked = ref true in
       let completed = ref [] and now = ref 0 in
       let saved = ref None in            (* files + bitfield of the last save that wrote them *)
       let saved_unc = ref [] in          (* uncertain list of the last save (erased and rewritten each time) *)
       let saved_cl = ref (-1) in
       let any_save = ref false in
       let all_set () = match !bits with Some b -> List.for_all (fun x -> x) b | None -> false in
       let complete which =
         if !active then (match !bits with
             | Some b ->
               let b' = List.mapi (fun i v ->
                   if (not v) && which i then begin
                     completed := hash_succeeded !completed (z_of_int !now) (nat_of_int i);
                     disk.(i) <- true; true end else v) b in
               bits := Some b'
             | None -> ()) in
       let starts_with s p = String.length s >= String.length p && String.sub s 0 (String.length p) = p in
       let after s p = String.sub s (String.length p) (String.length s - String.length p) in
       List.iter (fun o ->
           if o = "start" then (if !opened && !checked then active := true)
           else if o = "stop" then active := false
           else if o = "dl" then complete (fun _ -> true)
           else if starts_with o "dl=" then (let l = ilist (after o "dl=") in complete (fun i -> List.mem i l))
           else if starts_with o "dlhold=" then (let l = ilist (after o "dlhold=") in complete (fun i -> List.mem i l))
           else if o = "drop" then ()
           else if starts_with o "adv" then now := !now + int_of_string (after o "adv")
           else if o = "close" then (active := false; opened := false; checked := false; bits := None)
           else if o = "reopen" then (if not !opened then (opened := true; checked := true; bits := Some (Array.to_list disk)))
           else if o = "openonly" then (if not !opened then (opened := true; checked := false; bits := None))
           else if o = "finishcheck" then (if !opened && not !checked then (checked := true; bits := Some (Array.to_list disk)))
           else if o = "save" then begin
             if !opened then begin
               any_save := true;
               if !checked then begin
                 let kinds = List.map (fun _ -> saved_mtime (Some (n_of_int 0, z_of_int 500)) true (all_set ()) !active) lens in
                 saved := Some (kinds, (match !bits with Some b -> b | None -> []))
               end;
               (* resume_save_uncertain_pieces: while not hash checked the repaired code leaves the stored list alone *)
               if !checked || not unc_kept_flag then
                 saved_unc := List.sort_uniq compare (List.map int_of_nat (uncertain_saved !completed (z_of_int !now)));
               saved_cl := List.length !completed
             end
           end) (split_ws ops);
       let cls = if !any_save then string_of_int !saved_cl else "-" in
       let uncs = if !saved_unc = [] then "none" else String.concat "," (List.map string_of_int !saved_unc) in
       (* lifetime 2 *)
       let offs = ref 0 in
       let finfo = List.mapi (fun k l ->
           let o = !offs in offs := o + l;
           let first = o / pl in
           let last = if l = 0 then first else (o + l + pl - 1) / pl in
           let p = List.nth pt k in
           let st = if p = "D" then None
             else if p.[0] = 'T' then Some (n_of_int (int_of_string (String.sub p 1 (String.length p - 1))), z_of_int 500)
             else if p = "W" then Some (n_of_int l, z_of_int 507) else Some (n_of_int l, z_of_int 500) in
           ({ fi_first = nat_of_int first; fi_last = nat_of_int last; fi_pad = false; fi_size = n_of_int l; fi_stat = st }, (o, l, p))) lens in
       let valid = List.init np (fun i ->
           let a = i * pl and b = min ((i + 1) * pl) total in
           disk.(i) && not (List.mem i lose) &&
           List.for_all (fun (_, (o, l, p)) ->
               let lo = max a o and hi = min b (o + l) in
               lo >= hi || (p = "=" ) || (p.[0] = 'T' && hi - o <= int_of_string (String.sub p 1 (String.length p - 1)))) finfo) in
       let kind_char z = let v = int_of_z z in if v = -1 then "0" else if v = -2 then "1" else if v = -3 then "2" else if v = -4 then "A" else "R" in
       let s0 = opened_state np (List.length lens) in
       (match !saved with
        | None ->
          let r = { r_map = true; r_files = None; r_bits = BMissing; r_unc = None; r_unc_ts = None } in
          let (s, _) = load (nat_of_int np) (z_of_int 10) (List.map fst finfo) s0 r in
          Printf.sprintf "saved=- sbf=- unc=%s cl=%s%s load_ranges=%s bits=%s" uncs cls (if resave then " resaved_unc=erased" else "") (bools_str s.l_ranges) (bools_str (check s valid))
        | Some (kinds, b) ->
          let unc = !saved_unc in
          let allset = List.for_all (fun x -> x) b and allunset = List.for_all (fun x -> not x) b in
          let nset = List.length (List.filter (fun x -> x) b) in
          let bytes = List.init ((np + 7) / 8) (fun j ->
              let v = ref 0 in
              for q = 0 to 7 do
                let i = j * 8 + q in
                if i < np && List.nth b i then v := !v lor (0x80 lsr q)
              done; !v) in
          let sbf = if allset || allunset then Printf.sprintf "V%d" nset
            else "S" ^ String.concat "" (List.map (Printf.sprintf "%02x") bytes) in
          let rb = if allset || allunset then BVal (z_of_int nset) else BStr (List.map n_of_int bytes) in
          let uncb = List.concat_map (fun i -> List.map n_of_int [(i lsr 24) land 255; (i lsr 16) land 255; (i lsr 8) land 255; i land 255]) unc in
          let r = { r_map = true; r_files = Some (List.map (fun z -> FMap (MVal z)) kinds); r_bits = rb;
                    r_unc = (if unc = [] then None else Some uncb); r_unc_ts = (if unc = [] then None else Some (z_of_int 0)) } in
          (* the intermediate lifetime of a 'resave' case: nothing completes there, it saves 10 s after its start *)
          let r2 = if resave then resave_unchecked r [] (z_of_int 1) else r in
          let rs = if resave then (match r2.r_unc with Some _ -> " resaved_unc=kept" | None -> " resaved_unc=erased") else "" in
          let (s, _) = load (nat_of_int np) (z_of_int 10) (List.map fst finfo) s0 r2 in
          Printf.sprintf "saved=%s sbf=%s unc=%s cl=%s%s load_ranges=%s bits=%s"
            (String.concat "" (List.map kind_char kinds)) sbf uncs cls rs
            (bools_str s.l_ranges) (bools_str (check s valid)))
     | _ -> "BADCASE")
  | _ -> "BADCASE"

let () = each_line (fun line ->
  (* Lq / Tq: the implementation runs the requested check the rtorrent way (quick first); same result on the model *)
  let line = if String.length line >= 3 && line.[1] = 'q' && line.[2] = ' ' then String.make 1 line.[0] ^ String.sub line 2 (String.length line - 2) else line in
  if String.length line >= 2 && String.sub line 0 2 = "T " then run_t line else
  match split_on '|' line with
  | [head; fls; rs; bads] ->
    (match split_ws head with
     | ["L"; pls; lds] ->
       let pl = int_of_string pls and load_date = int_of_string lds in
       let files = List.map (fun t -> match split_on ',' t with
           | [l; sz; mt] -> (int_of_string l, int_of_string sz, int_of_string mt, false)
           | [l; sz; mt; "p"] -> (int_of_string l, -1, int_of_string mt, true) | _ -> failwith "file") (split_ws fls) in
       let total = List.fold_left (fun a (l, _, _, _) -> a + l) 0 files in
       let np = (total + pl - 1) / pl in
       let bad = List.filter_map (fun t -> if t = "-" then None else Some (int_of_string t)) (split_ws bads) in
       let off = ref 0 in
       let fis = List.map (fun (l, sz, mt, pad) ->
           let o = !off in
           off := o + l;
           let first = o / pl in
           let last = if l = 0 then first else (o + l + pl - 1) / pl in
           ({ fi_first = nat_of_int first; fi_last = nat_of_int last; fi_pad = pad; fi_size = n_of_int l;
              fi_stat = (if sz < 0 then None else Some (n_of_int sz, z_of_int mt)) }, (o, l, (if pad then l else sz)))) files in
       let valid = List.init np (fun i ->
           let a = i * pl and b = min ((i + 1) * pl) total in
           (not (List.mem i bad)) &&
           List.for_all (fun (_, (o, l, sz)) ->
               let lo = max a o and hi = min b (o + l) in
               lo >= hi || (sz >= 0 && hi - o <= sz)) fis) in
       let top = ref true and rfiles = ref None and rbits = ref BMissing and runc = ref None and rts = ref None in
       List.iter (fun tk ->
           match String.index_opt tk '=' with
           | None -> ()
           | Some e ->
             let key = String.sub tk 0 e and v = String.sub tk (e + 1) (String.length tk - e - 1) in
             (match key with
              | "top" -> if v = "x" then top := false
              | "files" ->
                if v = "none" || v = "notlist" || v = "str" || v = "map" then rfiles := None
                else if v = "empty" then rfiles := Some []
                else rfiles := Some (List.map (fun x ->
                    if x = "x" || x = "xi" || x = "xl" then FNotMap
                    else if x = "n" || x = "s" || x = "l" || x = "m" then FMap MNone
                    else FMap (MVal (z_of_string x))) (split_on ',' v))
              | "bf" ->
                if v = "none" || v = "L" || v = "M" then rbits := BMissing
                else if v.[0] = 'V' then rbits := BVal (z_of_string (String.sub v 1 (String.length v - 1)))
                else rbits := BStr (bytes_of_hex (let h = String.sub v 1 (String.length v - 1) in if h = "" then "-" else h))
              | "unc" -> if v = "none" || v = "V" || v = "L" then runc := None else runc := Some (bytes_of_hex v)
              | "ts" -> if v = "none" || v = "str" || v = "L" then rts := None else rts := Some (z_of_string v)
              | _ -> ())) (split_ws rs);
       let r = { r_map = !top; r_files = !rfiles; r_bits = !rbits; r_unc = !runc; r_unc_ts = !rts } in
       let s0 = opened (nat_of_int np) (nat_of_int (List.length files)) in
       let (s, out) = load (nat_of_int np) (z_of_int load_date) (List.map fst fis) s0 r in
       let fin = check s valid in
       Printf.sprintf "out=%s bits=%s ranges=%s flags=%s final=%s"
         (match out with Ignored -> "Ignored" | Loaded -> "Loaded" | Threw -> "Threw")
         (match s.l_bits with None -> "-" | Some b -> bools_str b)
         (bools_str s.l_ranges)
         (String.concat "," (List.map (fun (c, z) -> (if c then "1" else "0") ^ (if z then "1" else "0")) s.l_flags))
         (bools_str fin)
     | _ -> "BADCASE")
  | _ -> "BADCASE")
