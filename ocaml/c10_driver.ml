(* C10 model driver.  L cases (see harness/c10.cc run_load) are modelled; T cases (two real lifetimes,
   real mtimes) are judged by the oracle only and answered with a fixed token. *)
let bools_str l = String.concat "" (List.map (fun b -> if b then "1" else "0") l)

let split_on c s = String.split_on_char c s

let () = each_line (fun line ->
  if String.length line >= 2 && String.sub line 0 2 = "T " then "T-ORACLE-ONLY" else
  match split_on '|' line with
  | [head; fls; rs; bads] ->
    (match split_ws head with
     | ["L"; pls; lds] ->
       let pl = int_of_string pls and load_date = int_of_string lds in
       let files = List.map (fun t -> match split_on ',' t with
           | [l; sz; mt] -> (int_of_string l, int_of_string sz, int_of_string mt) | _ -> failwith "file") (split_ws fls) in
       let total = List.fold_left (fun a (l, _, _) -> a + l) 0 files in
       let np = (total + pl - 1) / pl in
       let bad = List.filter_map (fun t -> if t = "-" then None else Some (int_of_string t)) (split_ws bads) in
       let off = ref 0 in
       let fis = List.map (fun (l, sz, mt) ->
           let o = !off in
           off := o + l;
           let first = o / pl in
           let last = if l = 0 then first else (o + l + pl - 1) / pl in
           ({ fi_first = nat_of_int first; fi_last = nat_of_int last; fi_pad = false; fi_size = n_of_int l;
              fi_stat = (if sz < 0 then None else Some (n_of_int sz, z_of_int mt)) }, (o, l, sz))) files in
       let valid = List.init np (fun i ->
           let a = i * pl and b = min ((i + 1) * pl) total in
           (not (List.mem i bad)) &&
           List.for_all (fun (_, (o, l, sz)) ->
               let lo = max a o and hi = min b (o + l) in
               lo >= hi || (sz >= 0 && hi - o <= sz)) fis) in
       let top = ref true and rfiles = ref None and rbits = ref BMissing and runc = ref None and rts = ref None in
       List.iter (fun tk ->
           match String.index_opt tk '=' with
           | None -> ()
           | Some e ->
             let key = String.sub tk 0 e and v = String.sub tk (e + 1) (String.length tk - e - 1) in
             (match key with
              | "top" -> if v = "x" then top := false
              | "files" ->
                if v = "none" || v = "notlist" then rfiles := None
                else rfiles := Some (List.map (fun x ->
                    if x = "x" then FNotMap else if x = "n" || x = "s" then FMap MNone
                    else FMap (MVal (z_of_int (int_of_string x)))) (split_on ',' v))
              | "bf" ->
                if v = "none" then rbits := BMissing
                else if v.[0] = 'V' then rbits := BVal (z_of_int (int_of_string (String.sub v 1 (String.length v - 1))))
                else rbits := BStr (bytes_of_hex (let h = String.sub v 1 (String.length v - 1) in if h = "" then "-" else h))
              | "unc" -> if v = "none" then runc := None else runc := Some (bytes_of_hex v)
              | "ts" -> if v = "none" || v = "str" then rts := None else rts := Some (z_of_int (int_of_string v))
              | _ -> ())) (split_ws rs);
       let r = { r_map = !top; r_files = !rfiles; r_bits = !rbits; r_unc = !runc; r_unc_ts = !rts } in
       let s0 = opened (nat_of_int np) (nat_of_int (List.length files)) in
       let (s, out) = load (nat_of_int np) (z_of_int load_date) (List.map fst fis) s0 r in
       let fin = check s valid in
       Printf.sprintf "out=%s bits=%s ranges=%s flags=%s final=%s"
         (match out with Ignored -> "Ignored" | Loaded -> "Loaded" | Threw -> "Threw")
         (match s.l_bits with None -> "-" | Some b -> bools_str b)
         (bools_str s.l_ranges)
         (String.concat "," (List.map (fun (c, z) -> (if c then "1" else "0") ^ (if z then "1" else "0")) s.l_flags))
         (bools_str fin)
     | _ -> "BADCASE")
  | _ -> "BADCASE")
