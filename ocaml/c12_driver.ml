(* C12 model driver. One case per line: ops separated by ','.
     I l k | E l k | Q l k | D l k | U l k n | V l n | T dt | A dt | R l v | S | X l k want
   l = list index (0 root, i>0 the i-th slave), k = node id, numbers decimal.
   Output: per completed op  "<out>#<dump>"  joined by " ; ", then " ; ERR:internal:<tag>" if the
   run ended in an internal_error. *)
let sn = string_of_n
let err_tag = function
  | E_enable_split -> "enable_split" | E_update_disabled -> "update_disabled"
  | E_quota_inactive -> "quota_inactive" | E_quota_notfound -> "quota_notfound"
  | E_used_too_much -> "used_too_much" | E_deact_inactive -> "deact_inactive"
  | E_deact_notfound -> "deact_notfound" | E_erase_empty -> "erase_empty"
  | E_erase_outstanding -> "erase_outstanding" | E_rate_insert -> "rate_insert"
  | E_tick_short -> "tick_short"

let show_nodes l = String.concat "," (List.map (fun (i, q) -> sn i ^ ":" ^ sn q) l)
let show_tl x t =
  Printf.sprintf "e=%d sz=%s o=%s ua=%s uu=%s ra=%s mn=%s mx=%s rs=%s A[%s] I[%s]"
    (if t.enabled then 1 else 0) (sn t.size) (sn t.outst) (sn t.unalloc) (sn t.uu) (sn t.radded)
    (sn t.minc) (sn t.maxc) (sn (rate_slow_of t x)) (show_nodes t.act) (show_nodes t.inact)
let show_st x =
  let b = Buffer.create 256 in
  Buffer.add_string b (Printf.sprintf "t=%s r=%s un=%s nx=%d lt=%s iv=%s | L0 %s"
    (sn x.now) (sn x.mrate) (sn x.unused) (int_of_nat x.next) (sn x.last_tick) (sn (interval_of x)) (show_tl x x.rtl));
  List.iteri (fun i s ->
    Buffer.add_string b (Printf.sprintf " | L%d r=%s un=%s %s" (i + 1) (sn s.s_rate) (sn s.s_unused) (show_tl x s.s_tl)))
    x.slaves;
  Buffer.contents b
let show_out = function
  | OutOk -> "ok" | OutQ q -> "q=" ^ sn q
  | OutAct a -> "act=" ^ String.concat "," (List.map (fun (l, k) -> string_of_int (int_of_nat l) ^ ":" ^ sn k) a)
  | OutInputErr -> "ERR:input" | OutNoList -> "nolist"
  | OutIdle -> "idle" | OutDeact -> "deact" | OutUsed n -> "x=" ^ sn n

let parse_op s =
  let ni = nat_of_int and ns = n_of_string in
  match split_ws s with
  | ["I"; l; k] -> OInsert (ni (int_of_string l), ns k)
  | ["E"; l; k] -> OErase (ni (int_of_string l), ns k)
  | ["Q"; l; k] -> OQuota (ni (int_of_string l), ns k)
  | ["D"; l; k] -> ODeact (ni (int_of_string l), ns k)
  | ["U"; l; k; n] -> OUsed (ni (int_of_string l), ns k, ns n)
  | ["V"; l; n] -> OUnthr (ni (int_of_string l), ns n)
  | ["T"; dt] -> OTick (ns dt)
  | ["A"; dt] -> OAdvance (ns dt)
  | ["R"; l; v] -> OSetRate (ni (int_of_string l), ns v)
  | ["S"] -> OSlave
  | ["X"; l; k; w] -> OConsume (ni (int_of_string l), ns k, ns w)
  | _ -> failwith "op"

let () = each_line (fun line ->
  let ops = List.map parse_op (List.filter (fun s -> String.trim s <> "") (String.split_on_char ',' line)) in
  let (tr, e) = run init ops in
  let parts = List.map (fun (x, o) -> show_out o ^ "#" ^ show_st x) tr in
  let parts = match e with None -> parts | Some e -> parts @ ["ERR:internal:" ^ err_tag e] in
  if parts = [] then "-" else String.concat " ; " parts)
