(* C07 model driver. Cases:
     D <hex>         decode the byte string with every reader
     E <tree>        encode the tree, then decode the encoding with every reader
     B <K|B> <cap> <tree>   buffered writer (coq/C07/WriteBuf.v): K = callback keeps the buffer (stream /
                     sha1 / size), prints the chunks the callback saw; B = object_write_to_buffer into
                     cap bytes, prints the bytes written or ERR:internal
   tree ::= I <dec> | S <hex|-> | L <n> tree*n | M <n> (<hex|-> tree)*n              *)
let rec parse_tree toks = match toks with
  | "I" :: z :: r -> (VInt (z_of_string z), r)
  | "S" :: h :: r -> (VStr (bytes_of_hex h), r)
  | "L" :: n :: r ->
      let rec go k r acc = if k = 0 then (VList (List.rev acc), r)
        else let (v, r') = parse_tree r in go (k - 1) r' (v :: acc) in
      go (int_of_string n) r []
  | "M" :: n :: r ->
      let rec go k r acc = if k = 0 then (VMap (List.rev acc), r)
        else match r with
          | h :: r1 -> let (v, r') = parse_tree r1 in go (k - 1) r' ((bytes_of_hex h, v) :: acc)
          | [] -> failwith "tree" in
      go (int_of_string n) r []
  | _ -> failwith "tree"

let rec print_tree b v = match v with
  | VInt z -> Buffer.add_string b ("I " ^ string_of_z z)
  | VStr s -> Buffer.add_string b ("S " ^ hex_of_bytes s)
  | VList l -> Buffer.add_string b ("L " ^ string_of_int (List.length l));
      List.iter (fun x -> Buffer.add_char b ' '; print_tree b x) l
  | VMap m -> Buffer.add_string b ("M " ^ string_of_int (List.length m));
      List.iter (fun (k, x) -> Buffer.add_char b ' '; Buffer.add_string b (hex_of_bytes k); Buffer.add_char b ' '; print_tree b x) m

let show_dec total r = match r with
  | Ok ((v, fl), rest) ->
      let b = Buffer.create 64 in
      Buffer.add_string b (Printf.sprintf "OK %d %s " (total - List.length rest) (if fl then "u" else "o"));
      print_tree b v; Buffer.contents b
  | Reject -> "REJECT" | Fault -> "FAULT" | OutOfFuel -> "OUTOFFUEL"

let show_skip total r = match r with
  | Ok (_, rest) -> Printf.sprintf "OK %d" (total - List.length rest)
  | Reject -> "REJECT" | Fault -> "FAULT" | OutOfFuel -> "OUTOFFUEL"

let show_raw total r = match r with
  | Ok (o, rest) -> Printf.sprintf "OK %d %s" (total - List.length rest) (match o with Some s -> hex_of_bytes s | None -> "none")
  | Reject -> "REJECT" | Fault -> "FAULT" | OutOfFuel -> "OUTOFFUEL"

let decode_all (l : n list) =
  let total = List.length l in
  String.concat " | " [
    "c:" ^ show_dec total (decode_c l);
    "s:" ^ show_dec total (decode_stream l);
    "k:" ^ show_skip total (skip_c l) ]

let () = each_line (fun line ->
  match split_ws line with
  | ["D"; h] -> decode_all (bytes_of_hex h)
  | "E" :: toks ->
      let (v, _) = parse_tree toks in
      let e = encode v in
      "enc:" ^ hex_of_bytes e ^ " h=1 | " ^ decode_all e
  | "B" :: k :: cap :: toks ->
      let (v, _) = parse_tree toks in
      let sink = if k = "K" then SinkKeep else SinkBuffer in
      let (st, chunks) = wb_encode sink (nat_of_int (int_of_string cap)) v in
      (match st with
       | WbInternal -> "wb:ERR:internal"
       | WbFuel -> "wb:OUTOFFUEL"
       | WbOk ->
           if k = "K" then
             "wb:OK s=1 n=" ^ string_of_int (List.length chunks) ^ " " ^
               (if chunks = [] then "none" else String.concat "," (List.map hex_of_bytes chunks))
           else "wb:OK " ^ hex_of_bytes (List.concat chunks))
  | _ -> "BADCASE")
