(* C16 model driver.  Input (built by props/c16.py from the case and the implementation's recorded events):
     seed=<0|1> f=<fault> tgt=<n> np=<n> | tok,tok,...
   Output:  pre=[rows G:...] post=[...] stop=[...] rej=<0|1>     in the harness's ledger format (without '~' parts) *)
let b2i b = if b then 1 else 0

let fin_leaders blocks c =
  List.fold_left (fun a b -> if b.fin then a + List.length (List.filter (fun (o, _) -> c < 0 || int_of_nat o = c) b.trs) else a) 0 blocks

let show_pi blocks removed r =
  if removed then "x" else
  if not r.pi_some then "none" else
  let f = (if r.pi_c then "c" else "") ^ (if r.pi_h then "h" else "") in
  (if f = "" then "-" else f) ^ ":" ^ string_of_int (int_of_z r.tc - fin_leaders blocks (int_of_nat r.cid))

let show_row blocks removed np_rows c =
  let show_pi = show_pi blocks in
  match List.find_opt (fun r -> int_of_nat r.cid = c) np_rows with
  | None -> Printf.sprintf "p%d=N;pi=%s" c (if removed then "x" else "none")
  | Some r ->
    (match r.ph with
     | PNone -> Printf.sprintf "p%d=N;pi=%s" c (show_pi removed r)
     | PHs -> Printf.sprintf "p%d=H:dl%d,pe%d;pi=%s" c (b2i r.dlb) (b2i r.pe) (show_pi removed r)
     | PConn -> Printf.sprintf "p%d=C:pe%d,ui%d,uu%d,us%d,di%d,du%d,px%d,tu%d,td%d,uc%d,dc%d,tr%s;pi=%s" c
                  (b2i r.pe) (b2i r.ui) (b2i r.uu) (b2i r.us) (b2i r.di) (b2i r.du) (b2i r.px) (b2i r.tu) (b2i r.td)
                  (b2i r.uc) (b2i r.dc) (string_of_z (tr_count r)) (show_pi removed r))

let show_glob removed s =
  let v = Array.of_list (List.map int_of_z s.g) in
  let pieces = List.sort_uniq compare (List.map (fun b -> int_of_n b.bidx / 64) s.blocks) in
  let bf = fin_leaders s.blocks (-1) in
  let tl = List.length pieces and bt = int_of_z (bt_count s.blocks) - bf in
  if removed then
    Printf.sprintf "G:cn0,hs%d,uu0,du0,geu0/0,ged0/0,px0,cr0,cw0,cb0,tl0,bt0,bf0,hq0,cqu%d/%d,cqd%d/%d,rm%d/%d,tu%d,td%d,sk%d"
      v.(1) v.(4) v.(7) v.(10) v.(13) v.(5) v.(11) v.(15) v.(16) v.(18)
  else
    Printf.sprintf "G:cn%d,hs%d,uu%d,du%d,geu%d/%d,ged%d/%d,px%d,cr%d,cw%d,cb0,tl%d,bt%d,bf%d,hq%d,cqu%d/%d,cqd%d/%d,rm%d/%d,tu%d,td%d,sk%d"
      v.(0) v.(1) v.(2) v.(8) v.(3) v.(6) v.(9) v.(12) v.(14) v.(17) v.(19) tl bt bf (List.length s.hq) v.(4) v.(7) v.(10) v.(13) v.(5) v.(11) v.(15) v.(16) v.(18)

let ledger removed np s =
  let rs = List.init np (fun c -> show_row s.blocks removed s.rows c) in
  (* DQ: ConnectionList::m_disconnectQueue size (the torrent object is gone after a remove) *)
  String.concat " " rs ^ " " ^ (if removed then "" else Printf.sprintf "DQ%d " (List.length s.dqueue)) ^ show_glob removed s

let nat c = nat_of_int c

(* block id of the model = piece * 64 + block number (16 KiB blocks) *)
let blk_id i o = n_of_int (int_of_string i * 64 + int_of_string o / 16384)

let pmsg_of kind =
  match String.split_on_char '@' kind with
  | [k; io] ->
      let b = (match String.split_on_char '.' io with [i; o] -> blk_id i o | _ -> failwith "blk") in
      (match k with
       | "bad" -> MPiece (b, Some (n_of_int 10))
       | _ -> MPiece (b, None))
  | _ ->
    (match kind with
     | "bf0" | "bf1" -> MBitfield | "ka" -> MKeep | "in" -> MInt | "ni" -> MNotInt | "un" -> MUnchoke | "ch" -> MChoke
     | "xh" -> MExtHs
     | k when String.length k >= 2 && String.sub k 0 2 = "rq" -> MRequest
     | k when String.length k >= 2 && String.sub k 0 2 = "ca" -> MCancel
     | k -> failwith ("kind " ^ k))

let ops_of_token np tok : op list =
  if tok = "" || tok = "-" then [] else
  let f = String.split_on_char ':' tok in
  let hd = List.hd f in
  let peer_of s = int_of_string (String.sub s 1 1) in
  match hd.[0] with
  | 'C' ->
      let p = peer_of hd in
      let rest = String.sub hd 2 (String.length hd - 2) in
      if rest = "o" then [] else [Connect (nat p, true, rest = "ix")]
  | 'O' -> let p = peer_of hd in [Connect (nat p, false, String.length hd > 2)]
  | 'B' ->
      let p = peer_of hd in
      (* kind may itself contain ':' (rq:0) *)
      let last = List.nth f (List.length f - 1) in
      let kind = String.concat ":" (List.filteri (fun i _ -> i >= 1 && i < List.length f - 1) f) in
      let n, len = (match String.split_on_char '/' last with [a; b] -> (n_of_string a, n_of_string b) | _ -> failwith "n/len") in
      if kind = "hs" then [HsBytes (nat p, n)] else [PeerMsg (nat p, pmsg_of kind, n, len)]
  | 'L' ->
      let p = peer_of hd in
      (match List.tl f with
       | "un" :: _ -> [LibMsg (nat p, LUnchoke)]
       | "ch" :: _ -> [LibMsg (nat p, LChoke)]
       | "rq" :: i :: o :: _ -> [LibMsg (nat p, LRequest (blk_id i o))]
       | "ps" :: _ -> [LibMsg (nat p, LPieceStart)]
       | _ -> [])
  | 'A' -> if tok = "A:ptick" then PexTick :: List.init np (fun c -> PexEnable (nat c))
           else if tok = "A:max:1" then [SetMax (z_of_int 1)]
           else if tok = "A:sockmax" then [SockLimit true]
           else if tok = "A:dfire" then [DiscFire]
           else if List.length f = 2 && List.nth f 1 = "ddis" then [DiscDelay (nat (peer_of hd))]
           else if List.length f = 2 && List.nth f 1 = "snub" then [Snub (nat (peer_of hd))]
           else if List.length f = 2 && List.nth f 1 = "unsnub" then [Unsnub (nat (peer_of hd))]
           else if String.length tok > 9 && String.sub tok 0 9 = "A:maxpex:" then
             [SetMaxPex (z_of_string (String.sub tok 9 (String.length tok - 9)))]
           else []
  | 'D' -> [HashDone (n_of_string (List.nth f 1))]
  | 'Q' -> [HashQueued (n_of_string (List.nth f 1))]
  | 'E' -> [Abort (nat (peer_of hd))]
  | 'V' -> []
  | _ -> failwith ("token " ^ tok)

let kv tok = match String.index_opt tok '=' with
  | Some i -> (String.sub tok 0 i, String.sub tok (i + 1) (String.length tok - i - 1))
  | None -> (tok, "")

let () = each_line (fun line ->
  match String.split_on_char '|' line with
  | [hd; evs] ->
      let kvs = List.map kv (split_ws hd) in
      let get k = List.assoc k kvs in
      let seed = get "seed" = "1" and fault = (get "f").[0] and tgt = int_of_string (get "tgt") and np = int_of_string (get "np") in
      let toks = String.split_on_char ',' (String.trim evs) in
      let rec split_at m acc = function
        | [] -> (List.rev acc, [])
        | t :: r -> if t = m then (List.rev acc, r) else split_at m (t :: acc) r in
      let before, rest = split_at "F" [] toks in
      let during, after = split_at "G" [] rest in
      let apply s ts = List.fold_left (fun s t -> List.fold_left step s (ops_of_token np t)) s ts in
      let all_peers = List.init np (fun c -> Abort (nat c)) in
      let s0 = apply (init seed) before in
      let pre = ledger false np s0 in
      let fops = (match fault with
        | 'X' | 'R' | 'H' -> [Abort (nat tgt)]
        | 'M' | 'T' -> all_peers
        | 'S' -> [Stop] | 'C' -> [Close] | 'D' -> [Remove]
        | _ -> failwith "fault") in
      (* a timeout fires after whatever the library did while time passed; the other faults come first *)
      let s1 = if fault = 'T' then List.fold_left step (apply s0 during) fops
               else apply (List.fold_left step s0 fops) during in
      let removed = fault = 'D' in
      let post = ledger removed np s1 in
      let s2 = apply (List.fold_left step s1 (all_peers @ [Stop])) after in
      let stop = ledger removed np s2 in
      Printf.sprintf "pre=[%s] post=[%s] stop=[%s] rej=%d" pre post stop (b2i s2.rej)
  | _ -> "BADCASE")
