(* C06 model driver. Same case protocol as harness/c06.cc (see there). The scripted peer's
   tokens are expanded to the model's SYMBOLIC cells instead of real bytes. *)
let bfb = nat_of_int 3
let ncell k = { ck = k; dec = [] }
let rec rep n x = if n <= 0 then [] else x :: rep (n - 1) x
let mode_of_int = function 0 -> Deny | 1 -> Allow | 2 -> Prefer | _ -> Require
let split c s = String.split_on_char c s

type phase = { toks : string list; seg : string; close_after : bool }
type script = Close | Phases of phase list

let parse_script s =
  if s = "X" then Close else if s = "-" then Phases [] else
  Phases (List.map (fun ph ->
    let body, seg = match String.rindex_opt ph '@' with
      | Some i -> String.sub ph 0 i, String.sub ph (i + 1) (String.length ph - i - 1)
      | None -> ph, "W" in
    let ts = List.filter (fun t -> t <> "") (split ',' body) in
    { toks = List.filter (fun t -> t <> "X") ts; seg; close_after = List.mem "X" ts }) (split '/' s))

let segments (cells : cell list) seg : cell list list =
  if cells = [] then [] else
  if seg = "W" then [cells] else
  if seg = "B" then List.map (fun c -> [c]) cells else begin
    let arr = Array.of_list cells in
    let n = Array.length arr in
    let cuts = List.map int_of_string (split '.' seg) in
    let out = ref [] and prev = ref 0 in
    List.iter (fun o -> if o > !prev && o < n then begin
      out := Array.to_list (Array.sub arr !prev (o - !prev)) :: !out; prev := o end) cuts;
    out := Array.to_list (Array.sub arr !prev (n - !prev)) :: !out;
    List.rev !out end

(* per-connection expansion state *)
type conn = { mutable ei : int; mutable sel : int }

let hs_values a =
  let t = Char.code a.[0] - 48 in
  let rsv = [0;0;0;0;0;(if a.[2] = '1' then 16 else 0);0;0] in
  bt_prefix @ List.map n_of_int rsv @ hash_of (n_of_int t) @ (if a.[1] = '1' then own_id else other_id)

exception Peer_closes

let in_mode c m (vs : n list) : cell list =
  if m = 'c' || (m = 'm' && c.sel <> 2) then List.map (fun v -> ncell (Clr v)) vs
  else List.map (fun v -> let i = c.ei in c.ei <- i + 1; ncell (Enc (nat_of_int i, v))) vs

let expand c (wl : wev list) (t : string) : cell list =
  let rest k = String.sub t k (String.length t - k) in
  if t = "K" || t = "KL" then rep 96 (ncell (KeyB true))
  else if t = "K13" then ncell (Clr (n_of_int 19)) :: rep 95 (ncell (KeyB true))
  else if String.length t > 2 && String.sub t 0 2 = "KP" then begin
    let k = int_of_string (String.sub t 2 (String.length t - 2)) in
    let pre = List.filteri (fun i _ -> i < k) bt_prefix in
    List.map (fun v -> ncell (Clr v)) pre @ rep (96 - k) (ncell (KeyB true)) end
  else if t = "KZ" then rep 96 (ncell (KeyB false))
  else if t = "R" then List.init 20 (fun k -> ncell (Rq1 (nat_of_int k)))
  else if t = "RX" then rep 20 (ncell Opq)
  else match t.[0] with
  | 'O' -> rep (int_of_string (rest 1)) (ncell Opq)
  | 'S' -> let k = n_of_int (Char.code t.[1] - 48) in List.init 20 (fun i -> ncell (Skh (nat_of_int i, k)))
  | 'N' ->
    (match split '.' (rest 1) with
     | [p; pad] ->
       let p = int_of_string p and pad = int_of_string pad in
       let prov = match find_prov wl with Some x -> int_of_n x | None -> 0 in
       let s = if p land 2 <> 0 && prov land 2 <> 0 then 2 else if p land 1 <> 0 && prov land 1 <> 0 then 1 else raise Peer_closes in
       c.sel <- s;
       in_mode c 'e' (List.map n_of_int ([0;0;0;0;0;0;0;0; 0;0;0;s; pad / 256; pad mod 256] @ rep pad 0))
     | _ -> failwith "N token")
  | 'V' ->
    (match split '.' (rest 1) with
     | [sv; pad] ->
       let sv = int_of_string sv and pad = int_of_string pad in
       c.sel <- (if sv = 2 then 2 else 1);
       in_mode c 'e' (List.map n_of_int ([0;0;0;0;0;0;0;0; (sv lsr 24) land 255; (sv lsr 16) land 255; (sv lsr 8) land 255; sv land 255; pad / 256; pad mod 256] @ rep pad 0))
     | _ -> failwith "V token")
  | ('e' | 'c' | 'm') as m ->
    if m = 'm' && c.sel = 0 then (match find_sel wl with Some x -> c.sel <- int_of_n x | None -> ());
    (match t.[1] with
     | ':' -> in_mode c m (bytes_of_hex (rest 2))
     | 'H' -> in_mode c m (hs_values (rest 2))
     | 'Z' -> in_mode c m (rep (int_of_string (rest 2)) N0)
     | _ -> failwith ("token " ^ t))
  | _ -> failwith ("token " ^ t)

exception Internal

type run = { mutable trace : string list; mutable result : string; mutable fin : (hst * cell list) option;
             mutable late_possible : bool; mutable failpol : policy option; mutable last : (hst * cell list) option }

(* one script on one connection *)
let run_script (s0 : hst) (sc : script) : run =
  let r = { trace = []; result = ""; fin = None; late_possible = false; failpol = None; last = None } in
  let cur = ref (s0, []) in
  let c = { ei = 0; sel = 0 } in
  let after_ok = ref [] in      (* cells sent after success *)
  let handle o =
    match o with
    | Cont (s, k) ->
      cur := (s, k);
      r.trace <- Printf.sprintf "%d.%d.%d" (int_of_nat (st_num s.st)) (int_of_nat s.pos) (int_of_nat s.pos + List.length s.buf) :: r.trace
    | Done (s, k) -> r.result <- "ok"; r.fin <- Some (s, k); r.trace <- "ok" :: r.trace
    | Failed (s, ty, e) ->
      r.result <- Printf.sprintf "f%d.%d" (int_of_n ty) (int_of_n e); r.failpol <- Some s.pol; r.trace <- r.result :: r.trace
    | Crash _ -> raise Internal
    | OutOfFuel -> failwith "out of fuel" in
  (match sc with
   | Close -> handle (feed_close bfb (fst !cur) (snd !cur))
   | Phases phs ->
     (try List.iter (fun ph ->
        let closes = ref ph.close_after in
        let cells = ref [] in
        (try List.iter (fun t -> cells := !cells @ expand c (fst !cur).wlog t) ph.toks with Peer_closes -> closes := true);
        List.iter (fun sg ->
          if r.result = "" then begin let (s, k) = !cur in handle (feed bfb s (k @ sg)) end
          else if r.result = "ok" then after_ok := !after_ok @ sg) (segments !cells ph.seg);
        if r.result <> "" && r.result <> "ok" then raise Exit;
        if !closes then begin
          (if r.result = "" then let (s, k) = !cur in handle (feed_close bfb s k));
          raise Exit end) phs
      with Exit -> ()));
  if r.result = "" then begin r.result <- "open"; r.last <- Some !cur end;
  (match r.fin with
   | Some (s, k) ->
     r.late_possible <- (List.length s.buf > 0 && k = [] && !after_ok = []);
     r.fin <- Some (s, k @ !after_ok)
   | None -> ());
  r

let wstring (s : hst) =
  String.concat "" (List.map (function
    | WKeyPad -> "K" | WVC -> "V" | WSelect x -> "S" ^ string_of_int (int_of_n x) | WProvide x -> "P" ^ string_of_int (int_of_n x)
    | WHs e -> if e then "H1" else "H0" | WExt _ -> "") s.wlog)

let summary (r : run) chk =
  match r.fin with
  | Some (s, k) when r.result = "ok" ->
    let ext = List.exists (function WExt _ -> true | _ -> false) s.wlog in
    let lib = if not chk then "-" else if not (aligned_final s k) then "bad" else "ok" in   (* since /repo 5c4764e unread handshake data is dispatched at once (before: "late" when r.late_possible) *)
    Printf.sprintf "w=%s m=%s" (wstring s) (if ext then "20,5" else "5"), lib
  | _ -> "w=- m=-", "-"

let () = each_line (fun line ->
  try
    match split_ws line with
    | "I" :: hs :: st :: chk :: sc :: _ ->
      let p = { hs_mode = mode_of_int (int_of_string hs); st_mode = mode_of_int (int_of_string st); retrying = false; retry_mode = Allow } in
      let r = run_script (init_in p) (parse_script sc) in
      let (w, lib) = summary r (chk = "1") in
      Printf.sprintf "a1:%s %s att=1 lib=%s" (String.concat "," (List.rev r.trace)) w lib
    | "D" :: hs :: st :: chk :: sa :: sb :: _ ->
      (* two incoming handshakes do not share anything: the product of two independent runs *)
      let p = { hs_mode = mode_of_int (int_of_string hs); st_mode = mode_of_int (int_of_string st); retrying = false; retry_mode = Allow } in
      let one sc =
        let r = run_script (init_in p) (parse_script sc) in
        let (w, lib) = summary r (chk = "1") in
        Printf.sprintf "a1:%s %s att=1 lib=%s" (String.concat "," (List.rev r.trace)) w lib in
      Printf.sprintf "A[%s] B[%s]" (one sa) (one sb)
    | "O" :: hs :: st :: chk :: sp :: sm :: _ ->
      let p0 = { hs_mode = mode_of_int (int_of_string hs); st_mode = mode_of_int (int_of_string st); retrying = false; retry_mode = Allow } in
      let sp = parse_script sp and sm = parse_script sm in
      let rec go att p acc =
        let s0 = init_out p in
        let mse = (match s0.wlog with WKeyPad :: _ -> true | _ -> false) in
        let r = run_script s0 (if mse then sm else sp) in
        (* an attempt still open at the end of its script: the peer goes away *)
        (if r.result = "open" then match r.last with
          | Some (s, k) ->
            (match feed_close bfb s k with
             | Failed (s2, ty, e) ->
               r.result <- Printf.sprintf "f%d.%d" (int_of_n ty) (int_of_n e); r.failpol <- Some s2.pol; r.trace <- r.result :: r.trace
             | Done (s2, k2) -> r.result <- "ok"; r.fin <- Some (s2, k2); r.trace <- "ok" :: r.trace
             | Cont (s2, _) -> r.trace <- Printf.sprintf "%d.%d.%d" (int_of_nat (st_num s2.st)) (int_of_nat s2.pos) (int_of_nat s2.pos + List.length s2.buf) :: r.trace
             | Crash _ -> raise Internal
             | OutOfFuel -> failwith "out of fuel")
          | None -> ());
        let acc = acc @ [Printf.sprintf "a%d%s:%s" att (if mse then "m" else "p") (String.concat "," (List.rev r.trace))] in
        match r.failpol with
        | Some fp when att < 3 ->
          (match retry_policy false fp with
           | RRetry p2 -> go (att + 1) p2 acc
           | RThrow -> raise Internal
           | RNone -> (acc, att, r))
        | _ -> (acc, att, r) in
      let (acc, att, r) = go 1 p0 [] in
      let (w, lib) = summary r (chk = "1") in
      Printf.sprintf "%s %s att=%d lib=%s" (String.concat " " acc) w att lib
    | _ -> "BADCASE"
  with Internal -> "ERR:internal")
