(* C13 model driver. Same protocol as harness/c13.cc:
   T <t0_us> G <k> g1..gk ; op op ...   ->   one segment per op joined by " | " *)
let base_us = BZ.mul (BZ.of_int (365 * 24 * 3600)) (BZ.of_int 1000000)

let ev_code = function EvNone -> 0 | EvCompleted -> 1 | EvStarted -> 2 | EvStopped -> 3
let b2i b = if b then 1 else 0

let flags_int f =
  (b2i f.f_update) lor (b2i f.f_completed lsl 1) lor (b2i f.f_start lsl 2) lor (b2i f.f_stop lsl 3)
  lor (b2i f.f_active lsl 4) lor (b2i f.f_requesting lsl 5) lor (b2i f.f_failure lsl 6) lor (b2i f.f_promisc lsl 7)

let show_tracker t =
  Printf.sprintf "%d.%d.%d.%d.%s.%s.%s.%s.%s.%s" (int_of_nat t.t_id) (b2i t.t_en) (b2i t.t_busy) (ev_code t.t_ev)
    (string_of_z t.t_sc) (string_of_z t.t_fc) (string_of_z t.t_stl) (string_of_z t.t_ftl) (string_of_z t.t_ni) (string_of_z t.t_mi)

let show_req r =
  Printf.sprintf "%d:%d:%s:%s:%s:%d" (int_of_nat r.r_id) (ev_code r.r_ev) (string_of_z r.r_up) (string_of_z r.r_comp) (string_of_z r.r_left) (b2i r.r_repl)

let rec take n l = if n <= 0 then [] else match l with [] -> [] | x :: r -> x :: take (n - 1) r

let show_state s nnew =
  Printf.sprintf "%s %x %s %s R%s" (string_of_z s.now) (flags_int s.fl)
    (match s.tmo with None -> "-" | Some t -> string_of_z t)
    (String.concat ";" (List.map show_tracker s.trs))
    (String.concat "," (List.map show_req (List.rev (take nnew s.log))))

exception Badop

let fig = Array.make 5 BZ.zero   (* up total, comp total, left, up baseline, comp baseline *)
let fig_op () = OStats (z_of_zt (BZ.sub fig.(0) fig.(3)), z_of_zt (BZ.sub fig.(1) fig.(4)), z_of_zt fig.(2))

let parse_op k st tok =
  let a = String.split_on_char ':' tok in
  let z i = z_of_string (List.nth a i) in
  let id i =
    match List.nth a i with
    | "b" -> (match List.filter (fun t -> t.t_busy) st.trs with t :: _ -> Some t.t_id | [] -> None)
    | "B" -> (match List.rev (List.filter (fun t -> t.t_busy) st.trs) with t :: _ -> Some t.t_id | [] -> None)
    | v -> let v = int_of_string v in if v < List.length st.trs then Some (nat_of_int v) else None in
  match List.hd a with
  | "en" -> Some (OEnable true) | "ek" -> Some (OEnable false) | "di" -> Some ODisable | "cl" -> Some OClose
  | "ss" -> Some OSendStart | "sp" -> Some OSendStop | "sc" -> Some OSendCompleted | "su" -> Some OSendUpdate
  | "mr" -> Some OManual | "rq" -> Some OStartRequesting | "sq" -> Some OStopRequesting
  | "te" -> (match id 1 with Some i -> Some (OTrackerEnable i) | None -> None)
  | "td" -> (match id 1 with Some i -> Some (OTrackerDisable i) | None -> None)
  | "cy" -> Some (OCycle (nat_of_int (int_of_string (List.nth a 1))))
  | "ok" -> (match id 1 with Some i -> Some (OSuccess (i, z 2, z 3)) | None -> None)
  | "fl" -> (match id 1 with Some i -> Some (OFailure (i, None)) | None -> None)
  | "fi" -> (match id 1 with Some i -> Some (OFailure (i, Some (z 2, z 3))) | None -> None)
  | "ad" -> Some (OAdvance (z 1)) | "nx" -> Some ONext
  | "st" -> fig.(0) <- BZ.of_string (List.nth a 1); fig.(1) <- BZ.of_string (List.nth a 2); fig.(2) <- BZ.of_string (List.nth a 3); Some (fig_op ())
  | "bl" -> fig.(3) <- BZ.of_string (List.nth a 1); fig.(4) <- BZ.of_string (List.nth a 2); Some (fig_op ())
  | "in" -> Some (OInsert (nat_of_int (int_of_string (List.nth a 1))))
  | "ST" -> Some (OStart false) | "STK" -> Some (OStart true) | "SP" -> Some (OStop false) | "SPK" -> Some (OStop true)
  | _ -> raise Badop

(* U <up> <comp> <left> ; evop ...  : one tracker, the announce as it must appear on a BEP-15 wire *)
let run_udp up comp left evops =
  let s = ref (init (z_of_zt base_us) [nat_of_int 0]) in
  s := step !s (OStats (z_of_string up, z_of_string comp, z_of_string left));
  s := step !s (OEnable true);
  let outs = List.map (fun tok ->
    let n = String.length tok in
    let silent = n > 0 && tok.[n - 1] = '!' in
    let o = if silent then String.sub tok 0 (n - 1) else tok in
    let ops = match o with
      | "ss" -> [OSendStart] | "sc" -> [OSendCompleted] | "sp" -> [OSendStop] | "mr" -> [OManual]
      | "ST" -> [ODisable; OEnable true; OSendStart]
      | "SP" -> [OSendStop; ODisable; OEnable false]
      | "nx" -> [ONext]
      | _ -> raise Badop in
    let before = List.length !s.log in
    List.iter (fun op -> s := step !s op) ops;
    let nnew = List.length !s.log - before in
    let busy = List.exists (fun t -> t.t_busy) !s.trs in
    if not busy then "-"
    else if silent then begin
      (* worker-side timeout = a failure reply without intervals *)
      s := step !s (OFailure (nat_of_int 0, None));
      "timeout"
    end else begin
      let r = List.hd !s.log in
      ignore nnew;
      (* TrackerUdp: interval from the reply (1800), min interval = default_min_interval *)
      s := step !s (OSuccess (nat_of_int 0, z_of_int 1800, z_of_int 600));
      Printf.sprintf "%s:%s:%s:%s" (string_of_z (wire_event r.r_ev)) (string_of_z r.r_comp) (string_of_z r.r_left) (string_of_z r.r_up)
    end) evops in
  String.concat " | " outs

let () = each_line (fun line ->
  match split_ws line with
  | "U" :: up :: comp :: left :: ";" :: evops -> (try run_udp up comp left evops with Badop -> "BADOP")
  | "T" :: t0 :: "G" :: k :: rest ->
      let k = int_of_string k in
      let groups = List.map (fun g -> nat_of_int (int_of_string g)) (take k rest) in
      let rec drop n l = if n <= 0 then l else match l with [] -> [] | _ :: r -> drop (n - 1) r in
      (match drop k rest with
       | ";" :: ops ->
           Array.fill fig 0 5 BZ.zero;
           let s0 = init (z_of_zt (BZ.add base_us (BZ.of_string t0))) groups in
           let b = Buffer.create 1024 in
           let first = ref true in
           let s = ref s0 in
           (try
             List.iter (fun tok ->
               let o = parse_op k !s tok in
               let before = List.length !s.log in
               (match o with Some o -> s := step !s o | None -> ());
               let nnew = List.length !s.log - before in
               if not !first then Buffer.add_string b " | ";
               first := false;
               Buffer.add_string b (show_state !s nnew)) ops
           with Badop -> Buffer.add_string b "BADOP");
           if Buffer.length b = 0 then "-" else Buffer.contents b
       | _ -> "BADCASE")
  | _ -> "BADCASE")
