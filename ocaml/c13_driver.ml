(* C13 model driver. Same protocol as harness/c13.cc:
   T <t0_us> G <k> g1..gk ; op op ...   ->   one segment per op joined by " | " *)
let base_us = BZ.mul (BZ.of_int (365 * 24 * 3600)) (BZ.of_int 1000000)

let ev_code = function EvNone -> 0 | EvCompleted -> 1 | EvStarted -> 2 | EvStopped -> 3 | EvScrape -> 4
let b2i b = if b then 1 else 0

let flags_int f =
  (b2i f.f_update) lor (b2i f.f_completed lsl 1) lor (b2i f.f_start lsl 2) lor (b2i f.f_stop lsl 3)
  lor (b2i f.f_active lsl 4) lor (b2i f.f_requesting lsl 5) lor (b2i f.f_failure lsl 6) lor (b2i f.f_promisc lsl 7)

let show_tracker t =
  Printf.sprintf "%d.%d.%d.%d.%s.%s.%s.%s.%s.%s.%s" (int_of_nat t.t_id) (b2i t.t_en) (b2i t.t_busy) (ev_code t.t_ev)
    (string_of_z t.t_sc) (string_of_z t.t_fc) (string_of_z t.t_stl) (string_of_z t.t_ftl) (string_of_z t.t_ni) (string_of_z t.t_mi)
    (string_of_z t.t_sct)

let show_req r =
  Printf.sprintf "%d:%d:%s:%s:%s:%d" (int_of_nat r.r_id) (ev_code r.r_ev) (string_of_z r.r_up) (string_of_z r.r_comp) (string_of_z r.r_left) (b2i r.r_repl)

let rec take n l = if n <= 0 then [] else match l with [] -> [] | x :: r -> x :: take (n - 1) r

let show_state s nnew nscr =
  Printf.sprintf "%s %x %s %s P%s %s R%s S%s" (string_of_z s.now) (flags_int s.fl)
    (match s.tmo with None -> "-" | Some t -> string_of_z t)
    (match s.tsc with None -> "-" | Some t -> string_of_z t)
    (match s.pend with None -> "-" | Some (i, _) -> string_of_int (int_of_nat i))
    (String.concat ";" (List.map show_tracker s.trs))
    (String.concat "," (List.map show_req (List.rev (take nnew s.log))))
    (String.concat "," (List.map (fun (_, t) -> string_of_int (int_of_nat t.t_id)) (List.rev (take nscr s.slog))))

exception Badop

let fig = Array.make 5 BZ.zero   (* up total, comp total, left, up baseline, comp baseline *)
let fig_op () = OStats (z_of_zt (BZ.sub fig.(0) fig.(3)), z_of_zt (BZ.sub fig.(1) fig.(4)), z_of_zt fig.(2))

(* a token expands to a list of model ops: replies and tracker enable/disable first run the main thread's
   queued callback (ODrain), exactly as the harness does *)
let parse_op k st tok =
  let a = String.split_on_char ':' tok in
  let z i = z_of_string (List.nth a i) in
  let id i =
    match List.nth a i with
    | "b" -> (match List.filter (fun t -> t.t_busy) st.trs with t :: _ -> Some t.t_id | [] -> None)
    | "B" -> (match List.rev (List.filter (fun t -> t.t_busy) st.trs) with t :: _ -> Some t.t_id | [] -> None)
    | v -> let v = int_of_string v in if v < List.length st.trs then Some (nat_of_int v) else None in
  let with_id i f = match id i with Some x -> f x | None -> [] in
  let grp v = let n = String.length v in
    if n > 0 && v.[n - 1] = 's' then (nat_of_int (int_of_string (String.sub v 0 (n - 1))), true) else (nat_of_int (int_of_string v), false) in
  match List.hd a with
  | "en" -> [OEnable true] | "ek" -> [OEnable false] | "di" -> [ODisable] | "cl" -> [OClose]
  | "ss" -> [OSendStart] | "sp" -> [OSendStop] | "sc" -> [OSendCompleted] | "su" -> [OSendUpdate]
  | "mr" -> [OManual] | "rq" -> [OStartRequesting] | "sq" -> [OStopRequesting]
  | "te" -> with_id 1 (fun i -> [OTrackerEnable i])
  | "td" -> with_id 1 (fun i -> [OTrackerDisable i])
  | "cy" -> [OCycle (nat_of_int (int_of_string (List.nth a 1)))]
  | "ok" -> with_id 1 (fun i -> [OSuccess (i, z 2, z 3)])
  | "fl" -> with_id 1 (fun i -> [OFailure (i, None)])
  | "fi" -> with_id 1 (fun i -> [OFailure (i, Some (z 2, z 3))])
  | "dok" -> with_id 1 (fun i -> [ODone (i, RSucc (z 2, z 3))])
  | "dfl" -> with_id 1 (fun i -> [ODone (i, RFail None)])
  | "dfi" -> with_id 1 (fun i -> [ODone (i, RFail (Some (z 2, z 3)))])
  | "dr" -> [ODrain]
  | "sr" -> [OScrapeRequest (z 1)]
  | "nxs" -> [ONextScrape]
  | "h" -> [OHint (List.map (fun v -> nat_of_int (int_of_string v)) (List.filter (fun v -> v <> "") (String.split_on_char ',' (List.nth a 1))))]
  | "ad" -> [OAdvance (z 1)] | "nx" -> [ONext]
  | "st" -> fig.(0) <- BZ.of_string (List.nth a 1); fig.(1) <- BZ.of_string (List.nth a 2); fig.(2) <- BZ.of_string (List.nth a 3); [fig_op ()]
  | "bl" -> fig.(3) <- BZ.of_string (List.nth a 1); fig.(4) <- BZ.of_string (List.nth a 2); [fig_op ()]
  | "in" -> let (g, sc) = grp (List.nth a 1) in [OInsert (g, sc)]
  | "ST" -> fig.(3) <- fig.(0); fig.(4) <- fig.(1); [OStart false]
  | "STK" -> fig.(3) <- fig.(0); fig.(4) <- fig.(1); [OStart true]
  | "STB" -> [OStartK false] | "SP" -> [OStop false] | "SPK" -> [OStop true]
  | _ -> raise Badop

let grp_of_string v = let n = String.length v in
  if n > 0 && v.[n - 1] = 's' then (nat_of_int (int_of_string (String.sub v 0 (n - 1))), true) else (nat_of_int (int_of_string v), false)

(* U <up> <comp> <left> ; evop ...  : one tracker, the announce as it must appear on a BEP-15 wire *)
let run_udp up comp left evops =
  let s = ref (init (z_of_zt base_us) [(nat_of_int 0, false)]) in
  s := step !s (OStats (z_of_string up, z_of_string comp, z_of_string left));
  s := step !s (OEnable true);
  let outs = List.map (fun tok ->
    let n = String.length tok in
    let silent = n > 0 && tok.[n - 1] = '!' in
    let o = if silent then String.sub tok 0 (n - 1) else tok in
    let ops = match o with
      | "ss" -> [OSendStart] | "sc" -> [OSendCompleted] | "sp" -> [OSendStop] | "mr" -> [OManual]
      | "ST" -> [ODisable; OEnable true; OSendStart]
      | "SP" -> [OSendStop; ODisable; OEnable false]
      | "nx" -> [ONext]
      | _ -> raise Badop in
    let before = List.length !s.log in
    List.iter (fun op -> s := step !s op) ops;
    let nnew = List.length !s.log - before in
    let busy = List.exists (fun t -> t.t_busy) !s.trs in
    if not busy then "-"
    else if silent then begin
      (* worker-side timeout = a failure reply without intervals *)
      s := step !s (OFailure (nat_of_int 0, None));
      "timeout"
    end else begin
      let r = List.hd !s.log in
      ignore nnew;
      (* TrackerUdp: interval from the reply (1800), min interval = default_min_interval *)
      s := step !s (OSuccess (nat_of_int 0, z_of_int 1800, z_of_int 600));
      Printf.sprintf "%s:%s:%s:%s" (string_of_z (wire_event r.r_ev)) (string_of_z r.r_comp) (string_of_z r.r_left) (string_of_z r.r_up)
    end) evops in
  String.concat " | " outs

(* D <completed> <left> ; ops : the real Download API (harness/c13d.cc). One tracker; the session harness runs
   due timers after every call (OAdvance 0). Download::start/stop are no-ops when already active/inactive. *)
let run_download comp left ops =
  let s = ref (init (z_of_zt base_us) [(nat_of_int 0, false)]) in
  Array.fill fig 0 5 BZ.zero;
  fig.(1) <- BZ.of_string comp; fig.(2) <- BZ.of_string left;
  s := step !s (fig_op ());
  let active = ref false in
  let outs = List.map (fun tok ->
    let before = List.length !s.log in
    let apply o = s := step !s o in
    (match String.split_on_char ':' tok with
     | ["start"] -> if not !active then begin active := true; fig.(3) <- fig.(0); fig.(4) <- fig.(1); apply (OStart false) end
     | ["startk"] -> if not !active then begin active := true; apply (OStartK false) end
     | ["starts"] -> if not !active then begin active := true; fig.(3) <- fig.(0); fig.(4) <- fig.(1); apply (OStart true) end
     | ["stop"] -> if !active then begin active := false; apply (OStop false) end
     | ["stops"] -> if !active then begin active := false; apply (OStop true) end
     | ["up"; n] -> fig.(0) <- BZ.add fig.(0) (BZ.of_string n); apply (fig_op ())
     | ["ok"] -> apply (OSuccess (nat_of_int 0, z_of_int 1800, z_of_int 600))
     | ["fl"] -> apply (OFailure (nat_of_int 0, None))
     | ["mr"] -> apply OManual
     | ["cmp"] -> apply OSendCompleted
     | _ -> raise Badop);
    apply (OAdvance (z_of_int 0));
    let nnew = List.length !s.log - before in
    "R" ^ String.concat "," (List.map (fun r ->
      Printf.sprintf "%d:%s:%s:%s" (ev_code r.r_ev) (string_of_z r.r_up) (string_of_z r.r_comp) (string_of_z r.r_left))
      (List.rev (take nnew !s.log)))) ops in
  String.concat " | " outs

(* H <up> <comp> <left> ; ops : one real TrackerHttp against a scripted HTTP tracker; ok / fl = the worker part of the
   reply only (ODone), dr = the main thread runs its queue (ODrain) *)
let run_http up comp left ops =
  let s = ref (init (z_of_zt base_us) [(nat_of_int 0, true)]) in
  s := step !s (OStats (z_of_string up, z_of_string comp, z_of_string left));
  let outs = List.map (fun tok ->
    let before = List.length !s.log in
    let os = match String.split_on_char ':' tok with
      | ["en"] -> [OEnable true] | ["ss"] -> [OSendStart] | ["sc"] -> [OSendCompleted] | ["sp"] -> [OSendStop]
      | ["mr"] -> [OManual] | ["nx"] -> [ONext] | ["ad"; n] -> [OAdvance (z_of_string n)]
      | ["ok"] -> [ODone (nat_of_int 0, RSucc (z_of_int 1800, z_of_int 600))]
      | ["fl"] -> [ODone (nat_of_int 0, RFail None)]
      | ["dr"] -> [ODrain]
      | _ -> raise Badop in
    List.iter (fun o -> s := step !s o) os;
    let nnew = List.length !s.log - before in
    Printf.sprintf "%x %s R%s" (flags_int !s.fl) (match !s.tmo with None -> "-" | Some t -> string_of_z t)
      (String.concat "," (List.map (fun r ->
        Printf.sprintf "%d:%s:%s:%s" (ev_code r.r_ev) (string_of_z r.r_up) (string_of_z r.r_comp) (string_of_z r.r_left))
        (List.rev (take nnew !s.log))))) ops in
  String.concat " | " outs

let () = each_line (fun line ->
  match split_ws line with
  | "H" :: up :: comp :: left :: ";" :: ops -> (try run_http up comp left ops with Badop -> "BADOP")
  | "D" :: comp :: left :: ";" :: ops -> (try run_download comp left ops with Badop -> "BADOP")
  | "U" :: up :: comp :: left :: ";" :: evops -> (try run_udp up comp left evops with Badop -> "BADOP")
  | "T" :: t0 :: "G" :: k :: rest ->
      let k = int_of_string k in
      let groups = List.map grp_of_string (take k rest) in
      let rec drop n l = if n <= 0 then l else match l with [] -> [] | _ :: r -> drop (n - 1) r in
      (match drop k rest with
       | ";" :: ops ->
           Array.fill fig 0 5 BZ.zero;
           let s0 = init (z_of_zt (BZ.add base_us (BZ.of_string t0))) groups in
           let b = Buffer.create 1024 in
           let first = ref true in
           let s = ref s0 in
           (try
             List.iter (fun tok ->
               let before = List.length !s.log and sbefore = List.length !s.slog in
               (* replies and tracker enable/disable queue main-thread callbacks themselves: what is queued runs first
                  (and a target like "first busy tracker" is resolved after that) *)
               (match String.split_on_char ':' tok with
                | ("ok" | "fl" | "fi" | "te" | "td") :: _ -> s := step !s ODrain
                | _ -> ());
               let os = parse_op k !s tok in
               List.iter (fun o -> s := step !s o) os;
               (* a hint token only prepares the next op: it prints nothing *)
               if String.length tok < 2 || String.sub tok 0 2 <> "h:" then begin
                 s := step !s (OHint []);
                 let nnew = List.length !s.log - before and nscr = List.length !s.slog - sbefore in
                 if not !first then Buffer.add_string b " | ";
                 first := false;
                 Buffer.add_string b (show_state !s nnew nscr) end) ops
           with Badop -> Buffer.add_string b "BADOP");
           if Buffer.length b = 0 then "-" else Buffer.contents b
       | _ -> "BADCASE")
  | _ -> "BADCASE")
