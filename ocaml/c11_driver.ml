(* C11 model driver.  Case:  "<ntor> <ngrp> ; op ; op ; ..."   op = TOKEN args [: r r r]
   (the numbers after ':' are what successive random() calls return during that op; 0 when exhausted)
   Output: one dump per op joined by " ; "; the first ERR stops the case. *)
let dir_of = function "u" -> Up | "d" -> Dn | _ -> failwith "dir"
let nat s = nat_of_int (int_of_string s)
let bool_s b = if b then "1" else "0"
let dump_half (h : half) =
  let b = Buffer.create 256 in
  Buffer.add_string b (Printf.sprintf "%s/%s" (string_of_z h.h_cur) (string_of_n h.h_max));
  List.iteri (fun g (q : queue) ->
    Buffer.add_string b (Printf.sprintf " Q%d:%s,%s,%s,%d,[%s]" g (string_of_n q.q_max) (string_of_z q.q_cq) (string_of_z q.q_cu)
      (int_of_nat q.q_heur) (String.concat "." (List.map (fun t -> string_of_int (int_of_nat t)) q.q_ents)))) h.h_qs;
  let tn = Array.of_list h.h_tn and tg = Array.of_list h.h_tgrp in
  let ids l = String.concat "." (List.map (fun (c, _) -> string_of_int (int_of_nat c)) l) in
  List.iteri (fun t (e : entry) ->
    Buffer.add_string b (Printf.sprintf " T%d:%s,%s,%s,%d,[%s],[%s]" t (string_of_n e.e_max) (string_of_n e.e_min)
      (string_of_z tn.(t)) (int_of_nat tg.(t)) (ids e.e_q) (ids e.e_u))) h.h_ents;
  List.iteri (fun c (s : cstat) ->
    Buffer.add_string b (Printf.sprintf " C%d:%s%s%s%s%s,%s" c (bool_s s.cs_a) (bool_s s.cs_q) (bool_s s.cs_u) (bool_s s.cs_s) (bool_s s.cs_r)
      (string_of_z s.cs_t))) h.h_cs;
  Buffer.contents b
let dump (s : st) = Printf.sprintf "%s U{%s} D{%s}" (string_of_z s.s_now) (dump_half s.s_up) (dump_half s.s_dn)

let parse_op toks = match toks with
  | ["N"; t] -> ONew (nat t)
  | ["Q"; d; c] -> OQueue (dir_of d, nat c)
  | ["U"; d; c] -> OUnqueue (dir_of d, nat c)
  | ["K"; d; c] -> OUnqueueKeep (dir_of d, nat c)
  | ["S"; d; c] -> OSnub (dir_of d, nat c)
  | ["R"; d; c] -> OUnsnub (dir_of d, nat c)
  | ["X"; c] -> OClose (nat c)
  | ["TM"; d; t; x] -> OSetMaxSlots (dir_of d, nat t, n_of_string x)
  | ["Tm"; d; t; x] -> OSetMinSlots (dir_of d, nat t, n_of_string x)
  | ["BE"; d; t] -> OBalEntry (dir_of d, nat t)
  | ["QM"; d; g; x] -> OSetQMax (dir_of d, nat g, n_of_string x)
  | ["QH"; d; g; k] -> OSetHeur (dir_of d, nat g, nat k)
  | ["GM"; d; x] -> OSetGMax (dir_of d, n_of_string x)
  | ["BA"; d; g] -> OBalance (dir_of d, nat g)
  | ["CY"; d; g; q] -> OCycle (dir_of d, nat g, n_of_string q)
  | ["TK"] -> OTick
  | ["SG"; t; g] -> OSetGroup (nat t, nat g)
  | ["AD"; dt] -> OAdvance (z_of_string dt)
  | ["RT"; c; p; dr; ur] -> ORate (nat c, p = "1", n_of_string dr, n_of_string ur)
  | _ -> failwith "op"

let split_on s sep = List.map String.trim (String.split_on_char sep s)
(* wire mode:  "W <npeers> <tok> <tok> ..."  tok = "k:<rec><pend><msgs>,k:..." (output of harness/c11s.cc):
   the extracted acceptor wire_accept is run on each peer's observation sequence *)
let wire_line line =
  match split_ws line with
  | _ :: np :: toks ->
    let np = int_of_string np in
    let bad = ref [] in
    for k = 0 to np - 1 do
      let obs = ref [] and closed = ref false in
      List.iter (fun tok ->
        List.iter (fun part ->
          match String.split_on_char ':' part with
          | [kk; v] when int_of_string kk = k && not !closed ->
            if v = "x" then closed := true
            else begin
              let r = v.[0] = '1' and p = v.[1] = '1' in
              let ms = ref [] in
              String.iteri (fun i ch -> if i >= 2 then (if ch = 'u' then ms := true :: !ms else if ch = 'c' then ms := false :: !ms)) v;
              obs := ((r, p), List.rev !ms) :: !obs
            end
          | _ -> ()) (String.split_on_char ',' tok)) toks;
      if not (wire_accept false (List.rev !obs)) then bad := k :: !bad
    done;
    if !bad = [] then "ACCEPT" else "REJECT peers " ^ String.concat "," (List.map string_of_int (List.rev !bad))
  | _ -> "BADCASE"

let () = each_line (fun line ->
  if String.length line > 2 && String.sub line 0 2 = "W " then wire_line line else
  match split_on line ';' with
  | [] -> "BADCASE"
  | hdr :: ops ->
    (match split_ws hdr with
     | [nt; ng] ->
       let hold v = try z_of_string (Sys.getenv v) with Not_found -> z_of_string "10000000" in
       let s = ref (init_h (hold "C11_HOLD_QUEUED_US", hold "C11_HOLD_UNSNUB_US") (nat nt) (nat ng)) in
       let out = Buffer.create 4096 in
       Buffer.add_string out (dump !s);
       (try
         List.iter (fun o ->
           if o <> "" then begin
             let (a, r) = match String.split_on_char ':' o with
               | [a] -> (a, "") | [a; r] -> (a, r) | _ -> failwith "op" in
             let rs = List.map n_of_string (split_ws r) in
             match step !s (parse_op (split_ws a)) rs with
             | Ok s' -> s := s'; Buffer.add_string out " ; "; Buffer.add_string out (dump s')
             | Err e -> Buffer.add_string out (match e with EInternal -> " ; ERR:internal" | EFuel -> " ; ERR:fuel" | EFault -> " ; ERR:fault");
                        raise Exit
           end) ops
       with Exit -> ());
       Buffer.contents out
     | _ -> "BADCASE"))
