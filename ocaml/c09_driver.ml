(* C09 model driver.  Case line (three '|' separated sections):
     <piece_len> <seed> <len>:<f|p> ...  |  <disk perturbations>  |  <ops>
   perturbations:  F<g> flip byte at global offset g of the described content (xor 0x5a)
                   M<k> file k absent (its directory exists)      N<k> absent, directory missing
                   T<k>:<n> file k truncated to n bytes           E<k>:<n> file k extended by n bytes 0xa5
                   U<k>:<c> file k cannot be opened (errno other than ENOENT; c = l|d|n is how the
                            harness produces it)                  B<i>[:<k>] the torrent's hash of piece i is wrong (in byte k)
   ops:            O open   C hash_check(false)   Q hash_check(true)   D<i> piece i's digest is delivered
                   S hash_stop   X close   K scheduler tick   W let every queued piece finish
   Output: one snapshot per op joined by ';', then ' # ' and one token per file (final disk).
   H is instantiated with the identity (injective); expected i = the described bytes of piece i. *)

let content_byte seed g =
  let x = (g + 1000003 * seed) land 0xffffffff in
  (((x * 2654435761) land 0xffffffff) lsr 24) lxor (x land 0xff)

let rec list_init n f = let rec go i acc = if i < 0 then acc else go (i - 1) (f i :: acc) in go (n - 1) []

let fnv (l : n list) =
  List.fold_left (fun h b -> ((h lxor (int_of_n b)) * 16777619) land 0xffffffff) 2166136261 l

let bits_str = function
  | None -> "-"
  | Some l -> if l = [] then "" else String.concat "" (List.map (fun b -> if b then "1" else "0") l)

let snapshot pl (s : st) =
  let refs = List.fold_left (fun a nd -> a + int_of_nat nd.n_refs) 0 s.s_nodes in
  let blk = List.fold_left (fun a nd -> a + int_of_nat nd.n_blk) 0 s.s_nodes in
  let mp = List.fold_left (fun a nd -> a + (match nd.n_chunk with Some _ -> 1 | None -> 0)) 0 s.s_nodes in
  let fo = List.fold_left (fun a f -> a + (if f.f_open && not f.f_pad then 1 else 0)) 0 s.s_files in
  (* queued piece indices in queue order; per chunk-list node references:blocking:mapped ('.' = free) *)
  let q = if s.s_hq = [] then "-" else String.concat "," (List.map (fun (i, _) -> string_of_int (int_of_nat i)) s.s_hq) in
  let nd = if s.s_nodes = [] then "-" else String.concat "" (List.map (fun nd ->
      let r = int_of_nat nd.n_refs and b = int_of_nat nd.n_blk and m = (match nd.n_chunk with Some _ -> 1 | None -> 0) in
      if r = 0 && b = 0 && m = 0 then "." else Printf.sprintf "[%d:%d:%d]" r b m) s.s_nodes) in
  Printf.sprintf "o%d k%d c%d p%d u%d b%s r%s d%d e%d s%d rf%d bl%d mp%d hq%d fo%d mb%d mu%d t%d q%s nd%s"
    (if s.s_open then 1 else 0) (if is_checking s then 1 else 0) (if is_checked s then 1 else 0)
    (int_of_nat s.s_pos) (match s.s_out with None -> -1 | Some k -> int_of_nat k)
    (bits_str s.s_bits) (bits_str (Some s.s_ranges))
    (if s.s_delay then 1 else 0) (if s.s_errno then 1 else 0) (if s.s_storerr then 1 else 0)
    refs blk mp (List.length s.s_hq) fo (int_of_nat s.s_mem) (int_of_nat s.s_mem * pl) (if s.s_retry then 1 else 0) q nd

let disk_token (f : fnode) =
  if f.f_pad then "P" else
  match f.f_disk with
  | Absent -> "A" | NoDir -> "N" | Unreadable -> "U"
  | Bytes l -> Printf.sprintf "B%d:%08x" (List.length l) (fnv l)

let () = each_line (fun line ->
  if String.length line >= 2 && String.sub line 0 2 = "G " then "G-ORACLE-ONLY" else
  match String.split_on_char '|' line with
  | [lay; pert; ops] ->
    (match split_ws lay with
     | pls :: seeds :: fl ->
       let pl = int_of_string pls and seed = int_of_string seeds in
       let files = List.map (fun t -> match String.split_on_char ':' t with
                               | [l; fl] -> (int_of_string l, fl = "p") | _ -> failwith "file") fl in
       let total = List.fold_left (fun a (l, _) -> a + l) 0 files in
       (* described content: padding files are zeros *)
       let content = Array.make total 0 in
       let off = ref 0 in
       List.iter (fun (l, p) ->
           if not p then for g = !off to !off + l - 1 do content.(g) <- content_byte seed g done;
           off := !off + l) files;
       let npieces = (total + pl - 1) / pl in
       let pt0 = split_ws pert in
       (* Z<k>:<n>: the described content of file k ends in n zero bytes *)
       List.iter (fun t -> if t.[0] = 'Z' then begin
           match String.split_on_char ':' (String.sub t 1 (String.length t - 1)) with
           | [ks; ns] ->
             let k = int_of_string ks and nz = int_of_string ns in
             let offk = ref 0 in
             List.iteri (fun j (l, _) -> if j < k then offk := !offk + l) files;
             (match List.nth_opt files k with
              | Some (l, false) -> let nz = min nz l in
                for g = !offk + l - nz to !offk + l - 1 do content.(g) <- 0 done
              | _ -> ())
           | _ -> () end) pt0;
       let orig = Array.copy content in
       let bad = Array.make (max npieces 1) false in
       let pt = split_ws pert in
       let num s = int_of_string (String.sub s 1 (String.length s - 1)) in
       let num2 s = match String.split_on_char ':' (String.sub s 1 (String.length s - 1)) with
         | [a; b] -> (int_of_string a, b) | _ -> failwith "pert" in
       List.iter (fun t -> match t.[0] with
           | 'F' -> let g = num t in if g < total then content.(g) <- content.(g) lxor 0x5a
           | 'B' -> let i = (if String.contains t ':' then fst (num2 t) else num t) in if i < npieces then bad.(i) <- true
           | _ -> ()) pt;
       let offs = Array.make (List.length files + 1) 0 in
       List.iteri (fun k (l, _) -> offs.(k + 1) <- offs.(k) + l) files;
       let fstates = Array.of_list (List.mapi (fun k (l, p) ->
           if p then Bytes [] else
           Bytes (list_init l (fun j -> byte_tab.(content.(offs.(k) + j))))) files) in
       List.iter (fun t -> match t.[0] with
           | 'M' -> fstates.(num t) <- Absent
           | 'N' -> fstates.(num t) <- NoDir
           | 'U' -> fstates.(fst (num2 t)) <- Unreadable
           | 'T' -> let (k, n) = num2 t in let n = int_of_string n in
             (match fstates.(k) with Bytes l -> fstates.(k) <- Bytes (List.filteri (fun j _ -> j < n) l) | _ -> ())
           | 'E' -> let (k, n) = num2 t in let n = int_of_string n in
             (match fstates.(k) with Bytes l -> fstates.(k) <- Bytes (l @ list_init n (fun _ -> byte_tab.(0xa5))) | _ -> ())
           | _ -> ()) pt;
       let fs = List.mapi (fun k (l, p) -> fresh_file (n_of_int l) p fstates.(k)) files in
       let expected (i : nat) : n list =
         let i = int_of_nat i in
         if i >= npieces then [] else
         if bad.(i) then [n_of_int 999] else
         list_init (min pl (total - i * pl)) (fun j -> byte_tab.(orig.(i * pl + j))) in
       let hfun (b : n list) = b in
       let pln = n_of_int pl in
       let s = ref (init fs) in
       let outs = List.map (fun t ->
           let o = match t.[0] with
             | 'O' -> OOpen | 'C' -> OCheck false | 'Q' -> OCheck true | 'S' | 's' -> OStop | 'X' | 'x' | 'z' -> OClose
             | 'K' -> OTick | 'A' -> OAdvance
             | 'L' -> if t.[1] = '-' then OLimit None else OLimit (Some (nat_of_int (num t))) | 'W' | 'w' -> ORunAll | 'D' -> ODeliver (nat_of_int (num t))
             | _ -> failwith "op" in
           s := step hfun pln expected !s o;
           if t.[0] = 'z' then "removed" else snapshot pl !s) (split_ws ops) in
       if !s.s_ierr then "ERR:internal" else
       String.concat ";" outs ^ " # " ^ String.concat " " (List.map disk_token !s.s_files)
       ^ (if !s.s_ierr then " ierr=1" else " ierr=0")
     | _ -> "BADCASE")
  | _ -> "BADCASE")
