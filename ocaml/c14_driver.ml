(* C14 model driver. Cases (one per line):
     AC <hex> | AC6 <hex> | AB <hex>          compact / compact-ipv6 / DHT "6:"-list parsers
     AN <tree>                                 dictionary-form list (tree syntax of C07, must be L ...)
     PL <max> (T <h4> <h6> | X <h> | B <h4> <h6> | R <h4> <h6>)*     PeerList pipeline
     U <4|6> <other_tx> <event> (D <src_ok 0|1> <hex>)*              UDP tracker datagrams
     H <event> <hex body>                      TrackerHttp::receive_done                       *)
let rec parse_tree toks = match toks with
  | "I" :: z :: r -> (VInt (z_of_string z), r)
  | "S" :: h :: r -> (VStr (bytes_of_hex h), r)
  | "L" :: n :: r ->
      let rec go k r acc = if k = 0 then (VList (List.rev acc), r)
        else let (v, r') = parse_tree r in go (k - 1) r' (v :: acc) in
      go (int_of_string n) r []
  | "M" :: n :: r ->
      let rec go k r acc = if k = 0 then (VMap (List.rev acc), r)
        else match r with
          | h :: r1 -> let (v, r') = parse_tree r1 in go (k - 1) r' ((bytes_of_hex h, v) :: acc)
          | [] -> failwith "tree" in
      go (int_of_string n) r []
  | _ -> failwith "tree"

let hexn width x = BZ.format ("%0" ^ string_of_int width ^ "x") (zt_of_n x)
let show_addr = function
  | A4 (a, p) -> "4." ^ hexn 8 a ^ "." ^ string_of_n p
  | A6 (a, p) -> "6." ^ hexn 32 a ^ "." ^ string_of_n p
let show_addrs l = if l = [] then "-" else String.concat "," (List.map show_addr l)
let show_pres f = function POk a -> "OK " ^ f a | PFault -> "FAULT" | POutOfFuel -> "OUTOFFUEL"

let rec parse_ops toks = match toks with
  | [] -> []
  | "T" :: a :: b :: r -> OpTracker (bytes_of_hex a, bytes_of_hex b) :: parse_ops r
  | "X" :: a :: r -> OpPex (bytes_of_hex a) :: parse_ops r
  | "B" :: a :: b :: r -> OpBuffer (bytes_of_hex a, bytes_of_hex b) :: parse_ops r
  | "R" :: a :: b :: r -> OpRaw (bytes_of_hex a, bytes_of_hex b) :: parse_ops r
  | _ -> failwith "ops"

let rec parse_dgrams toks = match toks with
  | [] -> []
  | "D" :: s :: h :: r -> ((s = "1"), bytes_of_hex h) :: parse_dgrams r
  | _ -> failwith "dgrams"

let show_event = function
  | EvDrop -> "drop" | EvIgnore -> "ign" | EvFamilyReset -> "reset" | EvFault -> "fault"
  | EvFailure _ -> "fail"              (* message text: not constrained by the property, projected out *)
  | EvSuccess l -> "success:" ^ show_addrs l
  | EvNewPeers l -> "newpeers:" ^ show_addrs l
  | EvConnected c -> "connected:" ^ hexn 16 c
  | EvScrapeSuccess -> "scrape-ok"
  | EvScrapeFailure _ -> "scrape-fail"

let show_tx x = if x = N0 then "0" else if x = tx_connect then "C" else if x = tx_announce then "A" else "?" ^ string_of_n x
let show_ts ts =
  Printf.sprintf "ni=%s mi=%s c=%s i=%s d=%s sc=%s tid=%s" (string_of_z ts.ts_normal) (string_of_z ts.ts_min)
    (string_of_n ts.ts_complete) (string_of_n ts.ts_incomplete) (string_of_n ts.ts_downloaded)
    (string_of_n ts.ts_scrape_counter) (hex_of_bytes ts.ts_tracker_id)

let show_dmsg = function
  | MNoTid -> "No_transaction_ID" | MTidLong -> "Transaction_ID_length_too_long" | MNoType -> "No_message_type"
  | MUnsupportedType -> "Unsupported_message_type" | MBadId -> "Invalid_`id'_value" | MIdShort -> "`id'_value_too_short"
  | MTidBadLen -> "Invalid_transaction_ID_type/length." | MOwnId -> "Send_your_own_ID,_not_mine"
  | MUnknownType -> "Unknown_message_type."
let show_dht = function
  | DIgnore | DInactive _ | DResponse (_, _) | DErrorMsg _ -> "none"
  | DError (t, code, m) -> "e " ^ (match t with Some b -> hex_of_bytes b | None -> "~") ^ " " ^ string_of_n code ^ " " ^ show_dmsg m
  | DQuery _ -> "Q"
  | DFault -> "FAULT"
let rec take n l = if n = 0 then [] else match l with [] -> [] | x :: r -> x :: take (n - 1) r

let info_hash = List.init 20 (fun _ -> n_of_int 0x68)

let () = each_line (fun line ->
  match split_ws line with
  | ["AC"; h] -> show_pres show_addrs (parse_compact (bytes_of_hex h))
  | ["AC6"; h] -> show_pres show_addrs (parse_compact6 (bytes_of_hex h))
  | ["AB"; h] -> show_pres show_addrs (parse_bencode_peers (bytes_of_hex h))
  | "AN" :: toks ->
      (match normalize (fst (parse_tree toks)) with
       | VList l -> "OK " ^ show_addrs (parse_normal l)
            | _ -> "BADCASE")
  | "PL" :: mx :: toks ->
      show_pres (fun (av, rets) ->
          "ret=" ^ (if rets = [] then "-" else String.concat "," (List.map string_of_n rets)) ^ " avail=" ^ show_addrs av)
        (pl_run (n_of_string mx) (parse_ops toks))
  | "U" :: fam :: other :: _event :: toks ->
      let (u, evs) = udp_run (fam = "6") (n_of_string other) (parse_dgrams toks) in
      Printf.sprintf "ev=%s tx=%s conn=%s routed=%s %s"
        (if evs = [] then "-" else String.concat ";" (List.map show_event evs))
        (show_tx u.u_tx) (hexn 16 u.u_conn)
        (match u.u_routed with None -> "none" | Some (_, PhConnect) -> "C" | Some (_, PhAnnounce) -> "A")
        (show_ts u.u_ts)
  | ["H"; ev; h] ->
      let (ts, e) = http_receive_done info_hash (n_of_string ev) (bytes_of_hex h) tstate0 in
      show_event e ^ " | " ^ show_ts ts
  | "DH" :: own :: toks ->
      let own = bytes_of_hex own in
      let outs = List.map (fun (_, d) -> show_dht (dht_datagram own d))
                   (let rec go = function [] -> [] | "D" :: s :: h :: r -> (s, bytes_of_hex h) :: go r | _ -> failwith "dgrams" in go toks) in
      if outs = [] then "-" else String.concat " ; " outs
  | ["DV"; h] ->
      let d = bytes_of_hex h in
      (match sm_read dht d with
       | Ok (e, _) ->
           "OK values=" ^ (match dht_reply_values d with
                           | Some r -> (match r with POk l -> show_addrs l | PFault -> "FAULT" | POutOfFuel -> "OUTOFFUEL")
                           | None -> "~")
           ^ " nodes=" ^ (match ent_raw_string e k_r_nodes with
                          | Some n -> let len = List.length n in hex_of_bytes (take (len - len mod 26) n)
                          | None -> "~")
       | Reject -> "REJECT" | Fault -> "FAULT" | OutOfFuel -> "OUTOFFUEL")
  | "PX" :: mx :: toks ->
      let mx = n_of_string mx in
      let (av, rets) = List.fold_left (fun (av, rets) h ->
          match pex_apply av mx (bytes_of_hex h) with
          | PexRejected -> (av, rets @ ["REJECT"])
          | PexDone (av', None) -> (av', rets @ ["~"])
          | PexDone (av', Some r) -> (av', rets @ [string_of_n r])
          | PexFault -> (av, rets @ ["FAULT"])) ([], []) toks in
      "OK ret=" ^ (if rets = [] then "-" else String.concat "," rets) ^ " avail=" ^ show_addrs av
  | "DH" :: own :: toks ->
      let own = bytes_of_hex own in
      let outs = List.map (fun (_, d) -> show_dht (dht_datagram own d))
                   (let rec go = function [] -> [] | "D" :: s :: h :: r -> (s, bytes_of_hex h) :: go r | _ -> failwith "dgrams" in go toks) in
      if outs = [] then "-" else String.concat " ; " outs
  | ["DV"; h] ->
      let d = bytes_of_hex h in
      (match sm_read dht d with
       | Ok (e, _) ->
           "OK values=" ^ (match dht_reply_values d with
                           | Some r -> (match r with POk l -> show_addrs l | PFault -> "FAULT" | POutOfFuel -> "OUTOFFUEL")
                           | None -> "~")
           ^ " nodes=" ^ (match ent_raw_string e k_r_nodes with
                          | Some n -> let len = List.length n in hex_of_bytes (take (len - len mod 26) n)
                          | None -> "~")
       | Reject -> "REJECT" | Fault -> "FAULT" | OutOfFuel -> "OUTOFFUEL")
  | "PX" :: mx :: toks ->
      let mx = n_of_string mx in
      let (av, rets) = List.fold_left (fun (av, rets) h ->
          match pex_apply av mx (bytes_of_hex h) with
          | PexRejected -> (av, rets @ ["REJECT"])
          | PexDone (av', None) -> (av', rets @ ["~"])
          | PexDone (av', Some r) -> (av', rets @ [string_of_n r])
          | PexFault -> (av, rets @ ["FAULT"])) ([], []) toks in
      "OK ret=" ^ (if rets = [] then "-" else String.concat "," rets) ^ " avail=" ^ show_addrs av
  | "PI" :: mx :: now :: toks ->
      let addr_of_rec h =
        let b = bytes_of_hex h in
        (match parse_compact b, parse_compact6 b with
         | POk [a], _ when List.length b = 6 -> a
         | _, POk [a] when List.length b = 18 -> a
         | _ -> failwith "addr") in
      let key_of h = if String.length h = 8 then A4 (n_of_zt (BZ.of_string ("0x" ^ h)), N0) else A6 (n_of_zt (BZ.of_string ("0x" ^ h)), N0) in
      let rec go = function
        | [] -> []
        | "I" :: h :: f :: r -> PiInsert (addr_of_rec h, f = "1") :: go r
        | "S" :: h :: c :: lh :: r -> PiSet (key_of h, c = "1", n_of_string lh) :: go r
        | "N" :: n :: r -> PiNow (n_of_string n) :: go r
        | "T" :: a :: b :: r -> PiList (OpTracker (bytes_of_hex a, bytes_of_hex b)) :: go r
        | "X" :: a :: r -> PiList (OpPex (bytes_of_hex a)) :: go r
        | "B" :: a :: b :: r -> PiList (OpBuffer (bytes_of_hex a, bytes_of_hex b)) :: go r
        | "R" :: a :: b :: r -> PiList (OpRaw (bytes_of_hex a, bytes_of_hex b)) :: go r
        | _ -> failwith "pi-ops" in
      show_pres (fun s ->
          let show_pi p =
            (match p.pi_key with A4 (a, _) -> "4." ^ hexn 8 a | A6 (a, _) -> "6." ^ hexn 32 a)
            ^ "/" ^ string_of_n p.pi_lp ^ "/" ^ string_of_n p.pi_ap ^ "/" ^ (if p.pi_conn then "1" else "0") ^ "/" ^ string_of_n p.pi_lh in
          let pis = List.sort compare (List.map show_pi s.ps_pi) in
          "ret=" ^ (if s.ps_rets = [] then "-" else String.concat "," (List.map string_of_n s.ps_rets))
          ^ " avail=" ^ show_addrs s.ps_av ^ " pi=" ^ (if pis = [] then "-" else String.concat "," pis))
        (pi_run (n_of_string mx) (n_of_string now) (go toks))
  | "H2" :: ev :: bodies ->
      let bodies = List.map bytes_of_hex (List.filter (fun b -> b <> "~") bodies) in
      let (h, evs) = http_two_families info_hash (n_of_string ev) bodies in
      String.concat ";" (List.map (function HRetry -> "retry" | HEv e -> show_event e) evs) ^ " | " ^ show_ts h.h_ts
  | "DF" :: own :: target :: kind :: resp :: tidm :: idm :: srcm :: toks ->
      let num h = n_of_zt (BZ.of_string ("0x" ^ h)) in
      let nodes = match toks with
        | ["~"] -> None
        | _ -> Some (List.concat (List.map (fun tok ->
                   if tok.[0] = 'R' then begin
                     let c = String.index tok ':' in
                     let k = int_of_string (String.sub tok (c + 1) (String.length tok - c - 1)) in
                     bytes_of_hex (String.sub tok 1 (c - 1)) @ List.map n_of_int [127; 0; 0; k; 3; 232 + k]
                   end else bytes_of_hex (String.sub tok 1 (String.length tok - 1))) toks)) in
      let matched = tidm = "m" && idm = "m" && srcm = "s" in
      (match dht_find_node_reply (kind = "A") matched (num own) (num target) (num resp) nodes with
       | FnIgnored | FnFailed -> "-"
       | FnGetPeers -> "get_peers@2"
       | FnQueries [] -> "-"
       | FnQueries l ->
           String.concat "," (List.sort compare (List.map (fun (_, a) ->
             match a with A4 (ip, _) -> "find_node@" ^ string_of_int (int_of_n ip land 255) | A6 _ -> "?") l))
       | FnFault -> "FAULT")
  | "DS" :: own :: target :: toks ->
      let num h = n_of_zt (BZ.of_string ("0x" ^ h)) in
      let split_tok tok = let c = String.index tok ':' in
        (String.sub tok 1 (c - 1), int_of_string (String.sub tok (c + 1) (String.length tok - c - 1))) in
      let rec inits = function
        | tok :: r when tok.[0] = 'I' -> let (i, k) = split_tok tok in let (l, rest) = inits r in
            ((num i, A4 (n_of_int (0x7f000000 + k), n_of_int (1000 + k))) :: l, rest)
        | r -> ([], r) in
      let (init, rest) = inits toks in
      let rec events = function
        | [] -> []
        | tok :: r when tok.[0] = 'E' ->
            let rec body acc = function
              | x :: r' when x.[0] <> 'E' ->
                  let b = if x.[0] = 'R' then let (i, k) = split_tok x in
                            bytes_of_hex i @ List.map n_of_int [127; 0; 0; k; 3; 232 + k]
                          else bytes_of_hex (String.sub x 1 (String.length x - 1)) in
                  body (acc @ b) r'
              | r' -> (acc, r') in
            let (nodes, r') = body [] r in
            (num (fst (split_tok tok)), nodes) :: events r'
        | _ -> failwith "ds" in
      let segs = search_run (num own) (num target) init (events rest) in
      String.concat " ; " (List.map (fun l ->
        if l = [] then "-" else String.concat "," (List.sort compare (List.map (fun c ->
          match c.c_addr with A4 (ip, _) -> "find_node@" ^ string_of_int (int_of_n ip land 255) | A6 _ -> "?") l))) segs)
  | "UP" :: fam :: _event :: toks ->
      let (u, evs) = udp_run_pending (fam = "6") N0 (parse_dgrams toks) in
      Printf.sprintf "ev=%s %s" (if evs = [] then "-" else String.concat ";" (List.map show_event evs)) (show_ts u.u_ts)
  | "H3" :: ev :: toks ->
      let rec anns = function
        | [] -> []
        | "A" :: c :: b1 :: b2 :: r ->
            ((match c with "b" -> FamBoth | "n" -> FamNone | _ -> FamOne),
             List.map bytes_of_hex (List.filter (fun b -> b <> "~") [b1; b2])) :: anns r
        | _ -> failwith "anns" in
      let (ts, outs) = http_announces info_hash (n_of_string ev) (anns toks) in
      String.concat " / " (List.map (fun evs ->
        if evs = [] then "-" else String.concat ";" (List.map (function HRetry -> "retry" | HEv e -> show_event e) evs)) outs)
      ^ " | " ^ show_ts ts
  | _ -> "BADCASE")
